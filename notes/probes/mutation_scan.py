"""Throw-away mutation scan: which single-token mutants of src/ survive the pinned test suite?"""
import ast, os, sys, shutil, subprocess, json, tempfile, concurrent.futures as cf

SRC = "/repo/src/dep_logic"
FILES = ["specifiers/range.py", "specifiers/union.py", "specifiers/special.py", "specifiers/generic.py", "specifiers/__init__.py",
         "specifiers/arbitrary.py", "markers/single.py", "markers/multi.py", "markers/union.py", "markers/__init__.py",
         "markers/any.py", "markers/empty.py", "utils.py", "tags/tags.py", "tags/platform.py"]
CMP = {ast.Lt: ast.LtE, ast.LtE: ast.Lt, ast.Gt: ast.GtE, ast.GtE: ast.Gt, ast.Eq: ast.NotEq, ast.NotEq: ast.Eq,
       ast.In: ast.NotIn, ast.NotIn: ast.In, ast.Is: ast.IsNot, ast.IsNot: ast.Is}


def mutants(path):
    src = open(path).read()
    tree = ast.parse(src)
    out = []
    nodes = [n for n in ast.walk(tree)]
    for idx, n in enumerate(nodes):
        if isinstance(n, ast.Compare):
            for i, op in enumerate(n.ops):
                if type(op) in CMP:
                    out.append((idx, "cmp", i))
        elif isinstance(n, ast.BoolOp):
            out.append((idx, "bool", 0))
        elif isinstance(n, ast.UnaryOp) and isinstance(n.op, ast.Not):
            out.append((idx, "not", 0))
        elif isinstance(n, ast.Constant) and isinstance(n.value, bool):
            out.append((idx, "const", 0))
        elif isinstance(n, ast.Constant) and isinstance(n.value, int) and not isinstance(n.value, bool) and n.value in (0, 1, 2, 3, 5, 10, 12, 16, 17):
            out.append((idx, "int+", 0)); out.append((idx, "int-", 0))
        elif isinstance(n, ast.BinOp) and isinstance(n.op, (ast.Add, ast.Sub)):
            out.append((idx, "arith", 0))
        elif isinstance(n, ast.Return) and n.value is not None and isinstance(n.value, ast.Name) and n.value.id in ("self", "other", "this", "that"):
            out.append((idx, "retswap", 0))
    return src, out


def apply(src, spec):
    idx, kind, i = spec
    tree = ast.parse(src)
    nodes = [n for n in ast.walk(tree)]
    n = nodes[idx]
    if kind == "cmp": n.ops[i] = CMP[type(n.ops[i])]()
    elif kind == "bool": n.op = ast.Or() if isinstance(n.op, ast.And) else ast.And()
    elif kind == "not":
        # replace `not x` by `x`
        for p in nodes:
            for f, v in ast.iter_fields(p):
                if v is n: setattr(p, f, n.operand)
                elif isinstance(v, list) and n in v: v[v.index(n)] = n.operand
    elif kind == "const": n.value = not n.value
    elif kind == "int+": n.value += 1
    elif kind == "int-": n.value -= 1
    elif kind == "arith": n.op = ast.Sub() if isinstance(n.op, ast.Add) else ast.Add()
    elif kind == "retswap":
        n.value.id = {"self": "other", "other": "self", "this": "that", "that": "this"}[n.value.id]
    return ast.unparse(tree), getattr(n, "lineno", 0)


def run(job):
    f, spec = job
    path = os.path.join(SRC, f)
    src = open(path).read()
    try:
        new, line = apply(src, spec)
    except Exception as e:
        return (f, spec, "apply-error", str(e))
    d = tempfile.mkdtemp(prefix="mut", dir="/tmp/probe/mut")
    try:
        shutil.copytree("/repo/src", d + "/src")
        open(os.path.join(d, "src/dep_logic", f), "w").write(new)
        r = subprocess.run(["/venv/bin/python", "-m", "pytest", "-q", "-p", "no:cacheprovider", "-x", "--timeout=120",
                            "--deselect", "tests/marker/test_evaluation.py::test_evaluate_extra[platform_release >= '6'-environment10-True]",
                            "--deselect", "tests/specifier/test_arbitrary.py::test_arbitrary_unsupported[===abc->=1-and]", "/repo/tests"],
                           cwd="/repo", env={**os.environ, "PYTHONPATH": d + "/src"}, capture_output=True, text=True, timeout=600)
        status = "survived" if r.returncode == 0 else "killed"
        return (f, spec, status, line)
    except subprocess.TimeoutExpired:
        return (f, spec, "timeout", 0)
    finally:
        shutil.rmtree(d, ignore_errors=True)


if __name__ == "__main__":
    jobs = []
    for f in FILES:
        src, ms = mutants(os.path.join(SRC, f))
        jobs += [(f, m) for m in ms]
    print("mutants", len(jobs), flush=True)
    surv = []
    with cf.ThreadPoolExecutor(14) as ex:
        for k, res in enumerate(ex.map(run, jobs)):
            if res[2] != "killed":
                surv.append(res); print(res, flush=True)
    json.dump(surv, open("/tmp/probe/mut/survivors.json", "w"))
    print("survivors", len(surv), "of", len(jobs))
