import random, sys, collections
from packaging.specifiers import SpecifierSet, InvalidSpecifier as PI
from dep_logic.specifiers import parse_version_specifier as P, from_specifierset, InvalidSpecifier, BaseSpecifier
rnd=random.Random(int(sys.argv[1]))
bad=collections.OrderedDict(); cnt=collections.Counter()
def rec(k,w): cnt[k]+=1; bad.setdefault(k,w)
def ver(wild=False):
    s=""
    if rnd.random()<0.15: s+=rnd.choice(["v","V"])
    if rnd.random()<0.2: s+=f"{rnd.choice([0,1,2])}!"
    s+=".".join(str(rnd.choice([0,1,2,9,10,"01"])) for _ in range(rnd.choice([1,2,2,3,4])))
    if wild: return s+".*"
    if rnd.random()<0.3:
        s+=rnd.choice(["",".","-","_"])+rnd.choice(["a","b","c","rc","alpha","beta","pre","preview","A","RC"])+rnd.choice(["",".","-","_"])+rnd.choice(["","0","1","12"])
    if rnd.random()<0.25:
        s+=rnd.choice([".post1","-1","post2",".rev3","-r4","_post5",".POST6",".post"])
    if rnd.random()<0.2:
        s+=rnd.choice([".dev1","dev2","-dev3","_dev",".DEV4"])
    return s
def clause():
    op=rnd.choice(["==","!=","<","<=",">",">=","~=","==","!="])
    w = op in("==","!=") and rnd.random()<0.3
    sp=rnd.choice([""," ","  "])
    return f"{op}{sp}{ver(w)}"
def valid():
    return rnd.choice([",",", "," , "]).join(clause() for _ in range(rnd.choice([1,1,2,3])))
def mutate(s):
    k=rnd.random()
    if k<0.2: return s.replace("=","",1)
    if k<0.4: return s+rnd.choice([",",",,","x","!","*",".*"," ~"])
    if k<0.6: return s.replace(".","..",1)
    if k<0.8: return rnd.choice(["~=1","=1.0","===","<>1.0","~=1.*",">=1.*","1.0","==1.0a1.*","==*","!=","~= "])
    return s[::-1]
n=0
for i in range(int(sys.argv[2])):
    s=valid()
    if rnd.random()<0.3: s=mutate(s)
    if rnd.random()<0.1: s="||".join([s,valid()])
    n+=1
    parts=s.split("||") if "||" in s else [s]
    try:
        pk=[SpecifierSet(p) for p in parts]; ok=True
    except PI: ok=False
    try:
        r=P(s); got="ok"
        if not isinstance(r,BaseSpecifier): rec(("not-spec",),(s,repr(r)))
    except InvalidSpecifier: got="invalid"
    except Exception as e: got=("exc",type(e).__name__)
    if ok and got!="ok": rec(("rejects-valid",str(got)),(s,))
    if not ok and got!="invalid": rec(("accepts-invalid",str(got)),(s,))
    if ok:
        for p in pk:
            try: from_specifierset(p)
            except Exception as e: rec(("fss-exc",type(e).__name__),(str(p),))
print(n)
for k,v in bad.items(): print(cnt[k],k,v)
