import sys, random, collections, signal, os, time
from mk import *

seed = int(sys.argv[1]); N = int(sys.argv[2])
rnd = random.Random(seed)
cfg = Cfg()
for a in sys.argv[3:]:
    k, v = a.split("="); setattr(cfg, k, v == "1")
DEPTH = int(os.environ.get("DEPTH", "2"))
bad = collections.OrderedDict(); cnt = collections.Counter()


def rec(key, w):
    cnt[key] += 1; bad.setdefault(key, w)


class TO(Exception):
    pass


def onalarm(s, f):
    raise TO()


signal.signal(signal.SIGALRM, onalarm)
n = 0


def one(ta, tb):
    global n
    E = envs(rnd, 25)
    try:
        a, b = PM(ta), PM(tb)
    except TO:
        raise
    except Exception as e:
        rec(("parse-exc", type(e).__name__), (ta, tb, str(e)[:100])); return
    for t, m in ((ta, a), (tb, b)):
        for e in E:
            n += 1
            if not isinstance(e["extra"],str): continue
            try: exp = pk(t, e)
            except Exception as ex: rec(("pk-exc", type(ex).__name__), (t, str(ex)[:80])); break
            try: got = ev(m, e)
            except TO: raise
            except Exception as ex: rec(("C03-exc", type(ex).__name__), (t, str(m), str(ex)[:80])); break
            if got != exp:
                rec(("C03",), (t, str(m), {k: e[k] for k in names(m) | {'python_full_version'} if k in e}, exp, got)); break
    for name, fn, comb in (("and", lambda: a & b, lambda x, y: x and y), ("or", lambda: a | b, lambda x, y: x or y)):
        try: r = fn()
        except TO: raise
        except Exception as ex: rec(("op-exc", name, type(ex).__name__), (ta, tb, str(ex)[:100])); continue
        v = nf(r)
        if v: rec(("C15", name, v), (ta, tb, repr(r)))
        for e in E:
            try: exp = comb(ev(a, e), ev(b, e)); got = ev(r, e)
            except TO: raise
            except Exception as ex: rec(("C02-exc", type(ex).__name__), (ta, tb, str(r), str(ex)[:80])); break
            if exp != got:
                rec(("C02", name), (str(a), str(b), str(r), {k: e[k] for k in names(a) | names(b)}, exp, got)); break
        s = str(r)
        if isinstance(r, (AnyMarker, EmptyMarker)):
            if PM(s) != r: rec(("C07-trivial",), (s,))
        else:
            if "<empty>" in s: rec(("C07-emptytext",), (ta, tb, s))
            try:
                back = PM(s); Marker(s)
            except TO: raise
            except Exception as ex: rec(("C07-parse", type(ex).__name__), (ta, tb, s, str(ex)[:80])); continue
            for e in E:
                try:
                    if ev(back, e) != ev(r, e):
                        rec(("C07-sem",), (ta, tb, s, str(back), {k: e[k] for k in names(r)})); break
                except TO: raise
                except Exception as ex: rec(("C07-exc", type(ex).__name__), (s, str(ex)[:80])); break


t0 = time.time()
for i in range(N):
    ta, tb = text(rnd, cfg, rnd.randint(0,DEPTH)), text(rnd, cfg, rnd.randint(0,DEPTH))
    if ta.count('"')+tb.count('"') > 16: continue
    signal.alarm(5)
    try:
        one(ta, tb)
    except TO:
        rec(("TIMEOUT",), (ta, tb))
    finally:
        signal.alarm(0)
print("evals", n, "secs", round(time.time() - t0, 1))
for k, v in bad.items(): print(cnt[k], k, v)
