import random, sys, itertools
from packaging.version import Version
from dep_logic.specifiers import *
from dep_logic.specifiers import parse_version_specifier as P

ALL = ["0", "0.9", "1.0.dev1", "1.0a1", "1.0a1.post1","1.0rc1", "1.0", "1.0.post1.dev1", "1.0.post1", "1.0.0.1", "1.0.1", "1.1.dev0","1.1", "1.2", "1.9","1.10", "2.0a1", "2.0", "2.0.1", "2.1", "3", "3.0.1", "10.0","1!0.1", "1!1.0", "1!2.0", "2!0"]
ALLV = sorted({Version(v) for v in ALL})
POOL = ALLV[1::2]   # bounds
PTS = ALLV          # test points: pool + gap points on both sides
assert PTS[0] < POOL[0] and PTS[-1] > POOL[-1]

def mem(s, v):
    """structural membership"""
    if isinstance(s, EmptySpecifier): return False
    if isinstance(s, AnySpecifier): return True
    if isinstance(s, RangeSpecifier):
        if s.min is not None:
            if v < s.min or (v == s.min and not s.include_min): return False
        if s.max is not None:
            if v > s.max or (v == s.max and not s.include_max): return False
        return True
    if isinstance(s, UnionSpecifier):
        return any(mem(r, v) for r in s.ranges)
    raise TypeError(type(s))

def sig(s): return tuple(mem(s, v) for v in PTS)

def canon(s):
    if isinstance(s,(EmptySpecifier,AnySpecifier)): return None
    if isinstance(s, RangeSpecifier):
        if s.min is not None and s.max is not None:
            if s.min > s.max: return "min>max"
            if s.min == s.max and not (s.include_min and s.include_max): return "degenerate"
        return None
    if isinstance(s, UnionSpecifier):
        if len(s.ranges) < 2: return "short union"
        for r in s.ranges:
            if not isinstance(r, RangeSpecifier): return "non-range member"
            if r.is_any(): return "any member"
            c = canon(r)
            if c: return c
        for a,b in zip(s.ranges, s.ranges[1:]):
            if a.max is None or b.min is None: return "unbounded inside"
            if a.max > b.min: return "overlap/unsorted"
            if a.max == b.min and (a.include_max or b.include_min): return "touching"
        return None
    return "type "+type(s).__name__

rnd = random.Random(int(sys.argv[1]) if len(sys.argv)>1 else 0)
def leaf():
    k = rnd.random()
    v = rnd.choice(POOL)
    if k < 0.6:
        op = rnd.choice([">=",">","<","<=","==","!="])
        return f"{op}{v}"
    if k < 0.75:
        a,b = sorted(rnd.sample(POOL,2))
        return f"{rnd.choice(['>=','>'])}{a},{rnd.choice(['<=','<'])}{b}"
    if k < 0.85:
        # ~= needs >=2 release segments
        vv = rnd.choice([p for p in POOL if len(p.release)>=2])
        return f"~={vv}"
    vv = rnd.choice(POOL)
    ep = f"{vv.epoch}!" if vv.epoch else ""
    rel = ".".join(map(str, vv.release[:rnd.randint(1,len(vv.release))]))
    return f"{rnd.choice(['==','!='])}{ep}{rel}.*"

def gen(depth):
    if depth == 0 or rnd.random()<0.3:
        t = leaf()
        return t, P(t)
    k = rnd.random()
    if k < 0.2:
        t, s = gen(depth-1)
        return f"~({t})", ~s
    (t1,s1),(t2,s2) = gen(depth-1), gen(depth-1)
    if k < 0.6: return f"({t1})&({t2})", s1 & s2
    return f"({t1})|({t2})", s1 | s2

bad = {}
n=0
N = int(sys.argv[2]) if len(sys.argv)>2 else 20000
for i in range(N):
    try:
        (ta,a),(tb,b) = gen(3), gen(3)
    except Exception as e:
        bad.setdefault(("gen-exc",type(e).__name__,str(e)[:60]), ) if False else None
        bad[("gen-exc",type(e).__name__)] = str(e); continue
    for name, r, exp in [("and", a&b, tuple(x and y for x,y in zip(sig(a),sig(b)))),
                         ("or", a|b, tuple(x or y for x,y in zip(sig(a),sig(b)))),
                         ("inv", ~a, tuple(not x for x in sig(a)))]:
        n+=1
        if sig(r) != exp:
            bad.setdefault(("sem",name), (ta,tb,str(a),str(b),str(r)))
        c = canon(r)
        if c: bad.setdefault(("canon",name,c), (ta,tb,str(a),str(b),repr(r)))
        # eq exactness
        try:
            st = str(r)
        except Exception as e:
            bad.setdefault(("str-exc",type(e).__name__), (ta,tb)); continue
        try:
            back = P(st)
            if back != r:
                bad.setdefault(("roundtrip-ne",), (st, repr(back), repr(r), ta, tb))
            elif sig(back)!=sig(r):
                bad.setdefault(("roundtrip-sem",), (st, ta, tb))
        except Exception as e:
            bad.setdefault(("roundtrip-exc",type(e).__name__), (st,ta,tb, str(e)))
print("checked", n)
for k,v in bad.items(): print(k, v)
