"""single-variable exhaustive stratum: all atom triples over a tiny literal pool"""
import itertools, sys, collections, time
from packaging.markers import Marker
from dep_logic.markers import parse_marker as PM
LITS=["a","b","ab",""]; OPS=["==","!=","in","not in"]
VALS=["a","b","ab","","c","abc","ba"]
atoms=[f'os_name {o} "{l}"' for o in OPS for l in LITS]
bad=collections.OrderedDict(); cnt=collections.Counter()
def rec(k,w): cnt[k]+=1; bad.setdefault(k,w)
def ev(m): return tuple(m.evaluate({"os_name":v}) for v in VALS)
AT={t:PM(t) for t in atoms}; EV={t:ev(AT[t]) for t in atoms}
n=0; t0=time.time()
for x,y in itertools.product(atoms,repeat=2):
    for o1,f1 in (("and",lambda p,q:p and q),("or",lambda p,q:p or q)):
        try:
            xy = AT[x]&AT[y] if o1=="and" else AT[x]|AT[y]
        except Exception as e: rec(("exc2",type(e).__name__),(x,o1,y,str(e)[:60])); continue
        exy=tuple(f1(p,q) for p,q in zip(EV[x],EV[y]))
        n+=1
        if ev(xy)!=exy: rec(("pair",o1),(x,y,str(xy)))
        for z in atoms:
            for o2,f2 in (("and",lambda p,q:p and q),("or",lambda p,q:p or q)):
                n+=1
                try:
                    r1 = xy&AT[z] if o2=="and" else xy|AT[z]
                    r2 = AT[z]&xy if o2=="and" else AT[z]|xy
                except Exception as e: rec(("exc3",type(e).__name__),(x,o1,y,o2,z,str(e)[:60])); continue
                exp=tuple(f2(p,q) for p,q in zip(exy,EV[z]))
                if ev(r1)!=exp: rec(("triple",o1,o2,type(xy).__name__),(x,y,z,str(xy),str(r1)))
                if ev(r2)!=exp: rec(("triple-rev",o1,o2,type(xy).__name__),(x,y,z,str(xy),str(r2)))
print("cases",n,"secs",round(time.time()-t0,1))
for k,v in bad.items(): print(cnt[k],k,v)
