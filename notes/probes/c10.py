from dep_logic.markers import parse_marker as PM
from dep_logic.markers.single import _merge_single_markers
from dep_logic.utils import cnf, dnf
def clear():
    PM.cache_clear(); _merge_single_markers.cache_clear(); cnf.cache_clear(); dnf.cache_clear()
envs=[{"python_version":"3.7","python_full_version":"3.7.3","os_name":"nt"},{"python_version":"3.9","python_full_version":"3.9.1","os_name":"posix"},{"python_version":"3.8","python_full_version":"3.8.0","os_name":"nt"}]
def probe():
    a=PM('python_version < "3.8"'); b=PM('python_version < "3.9"')
    r=a&b
    a2=PM('python_version < "3.8" and os_name == "nt"'); b2=PM('os_name == "posix"')
    r2=a2|b2
    return str(r), [r.evaluate(e) for e in envs], str(r2), [r2.evaluate(e) for e in envs]
clear(); cold=probe()
clear()
# history with reversed spelling of equal atoms
h=PM('"3.8" > python_version') & PM('python_version < "3.9"')
h2=PM('"3.8" > python_version and os_name == "nt"') | PM('os_name == "posix"')
warm=probe()
print("cold",cold); print("warm",warm); print("same",cold==warm)
