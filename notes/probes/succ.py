import itertools, sys
from packaging.version import Version
def succ(v):
    s=f"{v.epoch}!"+".".join(map(str,v.release))
    if v.pre: s+=f"{v.pre[0]}{v.pre[1]}"
    if v.is_devrelease:
        if v.post is not None: s+=f".post{v.post}"
        return Version(s+f".dev{v.dev+1}")
    p=-1 if v.post is None else v.post
    return Version(s+f".post{p+1}.dev0")
U=set()
for ep in (0,1):
  for rel in itertools.chain(itertools.product(range(3),repeat=1),itertools.product(range(3),repeat=2),itertools.product(range(2),repeat=3)):
    for pre in (None,"a0","a1","b0","rc1"):
      for post in (None,0,1,2):
        for dev in (None,0,1,2):
          s=f"{ep}!"+".".join(map(str,rel))+(pre or "")+(f".post{post}" if post is not None else "")+(f".dev{dev}" if dev is not None else "")
          U.add(Version(s))
U=sorted(U)
print(len(U), U[0])
bad=0
for i,v in enumerate(U):
    sv=succ(v)
    assert sv>v
    # nothing in U strictly between
    for w in U[i+1:i+4]:
        if v<w<sv: bad+=1; print("between",v,w,sv)
print("bad",bad, "min is 0.dev0:", U[0]==Version("0.dev0"))
# sys.monitoring local events
import dep_logic.specifiers.range as R
from dep_logic.specifiers import parse_version_specifier as P
mon=sys.monitoring; TOOL=3
mon.use_tool_id(TOOL,"vf")
hits=set()
def line(code,lineno):
    hits.add((code.co_name,lineno)); return mon.DISABLE
mon.register_callback(TOOL,mon.events.LINE,line)
for fn in (R.RangeSpecifier.__and__,R.RangeSpecifier.__or__,R.RangeSpecifier.allows_lower):
    mon.set_local_events(TOOL,fn.__code__,mon.events.LINE)
import time; t=time.time()
for i in range(20000): P(">=1,<3")&P(">2,<5"); P(">=1,<3")|P(">2,<5")
print(sorted(hits)[:8], len(hits), time.time()-t)
