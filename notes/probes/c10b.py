import sys, random, collections, signal
import dep_logic.markers.single as single, dep_logic.utils as U, dep_logic.markers as M
import dep_logic.markers.multi as multi, dep_logic.markers.union as union
from mk import *
bad=collections.OrderedDict(); cnt=collections.Counter()
def rec(k,w): cnt[k]+=1; bad.setdefault(k,w)
def shape(x):
    return None if x is None else (type(x).__name__, str(x))
def spy(mod, name, also=()):
    cached=getattr(mod,name); raw=cached.__wrapped__
    def w(*args):
        before=cached.cache_info().hits
        r=cached(*args)
        hit=cached.cache_info().hits>before
        cnt[(name,"hit" if hit else "miss")]+=1
        if hit:
            fresh=raw(*args)
            if shape(fresh)!=shape(r): rec((name,"stale"),(tuple(shape(a) if hasattr(a,'evaluate') else a.__name__ for a in args),shape(r),shape(fresh)))
        return r
    w.cache_clear=cached.cache_clear; w.cache_info=cached.cache_info; w.__wrapped__=raw
    setattr(mod,name,w)
    for m in also: setattr(m,name,w)
spy(single,"_merge_single_markers")
spy(U,"cnf"); spy(U,"dnf")
rnd=random.Random(int(sys.argv[1])); cfg=Cfg(); cfg.pyin=False
class TO(Exception): pass
def onalarm(s,f): raise TO()
signal.signal(signal.SIGALRM,onalarm)
for i in range(int(sys.argv[2])):
    ta,tb=text(rnd,cfg,rnd.randint(0,2)),text(rnd,cfg,rnd.randint(0,2))
    if ta.count('"')+tb.count('"')>14: continue
    signal.alarm(5)
    try:
        a,b=PM(ta),PM(tb); a&b; a|b
    except TO: cnt["TO"]+=1
    except Exception as e: rec(("exc",type(e).__name__),(ta,tb))
    finally: signal.alarm(0)
print(dict(cnt))
for k,v in bad.items(): print(cnt[k],k,v)
