import random, sys
from packaging.version import Version
from dep_logic.specifiers import *
from dep_logic.specifiers import parse_version_specifier as P
import lib01
from lib01 import mem, canon
seed = int(sys.argv[1]); N=int(sys.argv[2]); EPOCH = len(sys.argv)>3
rnd = random.Random(seed)
def rv():
    ep = rnd.choice([0,0,0,1]) if EPOCH else 0
    rel = [rnd.choice([0,1,2,9,10]) for _ in range(rnd.choice([1,2,2,3,3,4]))]
    s = ".".join(map(str,rel))
    if ep: s=f"{ep}!{s}"
    if rnd.random()<0.25: s+=rnd.choice(["a1","b2","rc1"])
    if rnd.random()<0.2: s+=".post1"
    if rnd.random()<0.2: s+=".dev1"
    return s
bad={}
n=0
for run in range(N):
    strs = {}
    for _ in range(24):
        s=rv(); strs.setdefault(Version(s), []).append(s)   # several spellings of equal versions
    allv = sorted(strs)
    # pool: no two adjacent, not first/last
    pool=[]; last=-2
    for i in range(1,len(allv)-1):
        if i-last>=2 and rnd.random()<0.6: pool.append(allv[i]); last=i
    if len(pool)<3: continue
    PTS=allv
    def sp(v): return rnd.choice(strs[v])
    def sig(s): return tuple(mem(s,v) for v in PTS)
    def leaf():
        k=rnd.random(); v=rnd.choice(pool)
        if k<0.55: return f"{rnd.choice(['>=','>','<','<=','==','!='])}{sp(v)}"
        if k<0.7:
            a,b=sorted(rnd.sample(pool,2)); return f"{rnd.choice(['>=','>'])}{sp(a)},{rnd.choice(['<=','<'])}{sp(b)}"
        return f"{rnd.choice(['>=','>'])}{sp(v)}"
    def gen(d):
        if d==0 or rnd.random()<0.3:
            t=leaf(); return t,P(t)
        k=rnd.random()
        if k<0.2:
            t,s=gen(d-1); return f"~({t})",~s
        (t1,s1),(t2,s2)=gen(d-1),gen(d-1)
        if k<0.6: return f"({t1})&({t2})", s1&s2
        return f"({t1})|({t2})", s1|s2
    for _ in range(20):
        (ta,a),(tb,b)=gen(3),gen(3)
        for name,r,exp in [("and",a&b,tuple(x and y for x,y in zip(sig(a),sig(b)))),("or",a|b,tuple(x or y for x,y in zip(sig(a),sig(b)))),("inv",~a,tuple(not x for x in sig(a)))]:
            n+=1
            if sig(r)!=exp: bad.setdefault(("sem",name),(ta,tb,repr(r)))
            c=canon(r)
            if c: bad.setdefault(("canon",name,c),(ta,tb,repr(r)))
            try: st=str(r)
            except Exception as e:
                bad.setdefault(("str-exc",type(e).__name__),(ta,tb)); continue
            try:
                back=P(st)
                if back!=r: bad.setdefault(("rt-ne",),(st,repr(back),[ (x.min,x.max,x.include_min,x.include_max) for x in getattr(r,'ranges',[r]) if hasattr(x,'min')]))
            except Exception as e:
                bad.setdefault(("rt-exc",type(e).__name__),(st,str(e)))
print("checked",n)
for k,v in bad.items(): print(k,v)
