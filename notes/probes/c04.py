import random, sys
from packaging.version import Version
from packaging.specifiers import SpecifierSet
from dep_logic.specifiers import *
from dep_logic.specifiers import parse_version_specifier as P
seed=int(sys.argv[1]); N=int(sys.argv[2])
rnd=random.Random(seed)
SEG=[0,1,2,3,9,10]
def rel(n=None):
    n = n or rnd.choice([1,2,2,3,3,4])
    return [rnd.choice(SEG) for _ in range(n)]
def ver(suffix=True, minlen=1):
    r = rel(max(minlen, rnd.choice([1,2,2,3,3,4])))
    s=".".join(map(str,r))
    if suffix:
        if rnd.random()<0.2: s+=rnd.choice(["a1","b2","rc1"])
        if rnd.random()<0.15: s+=".post1"
        if rnd.random()<0.15: s+=".dev1"
    return s
def leaf():
    k=rnd.random()
    if k<0.5: return f"{rnd.choice(['>=','>','<','<=','==','!='])}{ver()}"
    if k<0.65: return f"~={ver(minlen=2)}"
    if k<0.8: return f"{rnd.choice(['==','!='])}{ver(False)}.*"
    return ",".join(leaf() for _ in range(2))
FINALS=[".".join(map(str,r)) for r in __import__('itertools').chain(
    ([a] for a in SEG), ([a,b] for a in SEG for b in SEG), ([a,b,c] for a in SEG for b in SEG for c in SEG))]
FINALS += ["1.0.0.1","1.0.1.0","0.0.0.0","2.0.0.1","10.10.10.1", "4","11","1.4","1.11"]
def gen(d):
    if d==0 or rnd.random()<0.3:
        t=leaf(); return t, P(t), (lambda v,t=t: SpecifierSet(t).contains(v, prereleases=True))
    k=rnd.random()
    if k<0.2:
        t,s,f=gen(d-1); return f"~({t})",~s,(lambda v,f=f: not f(v))
    (t1,s1,f1),(t2,s2,f2)=gen(d-1),gen(d-1)
    if k<0.6: return f"({t1})&({t2})", s1&s2, (lambda v: f1(v) and f2(v))
    return f"({t1})|({t2})", s1|s2, (lambda v: f1(v) or f2(v))
bad={}; n=0
for i in range(N):
    t,s,f=gen(3)
    for v in rnd.sample(FINALS, 40):
        n+=1
        exp=f(v)
        try:
            got = v in s
            got2 = s.contains(v) if hasattr(s,'contains') else got
        except Exception as e:
            bad.setdefault(("exc",type(e).__name__, type(s).__name__),(t,v,repr(s),str(e)[:80])); continue
        if got!=exp or got2!=exp:
            bad.setdefault(("mem",type(s).__name__),(t,v,repr(s),exp,got,got2))
print("checked",n)
for k,v in bad.items(): print(k,v)
