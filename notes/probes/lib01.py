import random, sys, itertools
from packaging.version import Version
from dep_logic.specifiers import *
from dep_logic.specifiers import parse_version_specifier as P

ALL = ["0", "0.9", "1.0.dev1", "1.0a1", "1.0a1.post1","1.0rc1", "1.0", "1.0.post1.dev1", "1.0.post1", "1.0.0.1", "1.0.1", "1.1.dev0","1.1", "1.2", "1.9","1.10", "2.0a1", "2.0", "2.0.1", "2.1", "3", "3.0.1", "10.0","1!0.1", "1!1.0", "1!2.0", "2!0"]
ALLV0 = sorted({Version(v) for v in ALL})
   # bounds
         # test points: pool + gap points on both sides
# < POOL[0] and PTS[-1] > POOL[-1]

def mem(s, v):
    """structural membership"""
    if isinstance(s, EmptySpecifier): return False
    if isinstance(s, AnySpecifier): return True
    if isinstance(s, RangeSpecifier):
        if s.min is not None:
            if v < s.min or (v == s.min and not s.include_min): return False
        if s.max is not None:
            if v > s.max or (v == s.max and not s.include_max): return False
        return True
    if isinstance(s, UnionSpecifier):
        return any(mem(r, v) for r in s.ranges)
    raise TypeError(type(s))

def sig(s): return tuple(mem(s, v) for v in PTS)

def canon(s):
    if isinstance(s,(EmptySpecifier,AnySpecifier)): return None
    if isinstance(s, RangeSpecifier):
        if s.min is not None and s.max is not None:
            if s.min > s.max: return "min>max"
            if s.min == s.max and not (s.include_min and s.include_max): return "degenerate"
        return None
    if isinstance(s, UnionSpecifier):
        if len(s.ranges) < 2: return "short union"
        for r in s.ranges:
            if not isinstance(r, RangeSpecifier): return "non-range member"
            if r.is_any(): return "any member"
            c = canon(r)
            if c: return c
        for a,b in zip(s.ranges, s.ranges[1:]):
            if a.max is None or b.min is None: return "unbounded inside"
            if a.max > b.min: return "overlap/unsorted"
            if a.max == b.min and (a.include_max or b.include_min): return "touching"
        return None
    return "type "+type(s).__name__

