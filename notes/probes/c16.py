import itertools, collections, random, sys
from dep_logic.tags import EnvSpec, Implementation, Platform, EnvCompatibility as EC
from dep_logic.specifiers import parse_version_specifier as P

RPS = ["", ">=3.8", ">=3.8,<3.11", "==3.9.*", "!=3.10.*", ">=3.7,!=3.9.*", "<3.0", "==3.8.10", ">=3", ">=4", "~=3.8", "<3.6||>=3.9", ">=3.10", "<3.10", ">=3.9", ">=3.9,<3.10"]
PLATS = [None, "linux", "manylinux_2_5_x86_64", "manylinux_2_28_x86_64", "manylinux_2_17_aarch64", "manylinux_2_31_aarch64", "musllinux_1_1_x86_64", "musllinux_1_2_x86_64", "musllinux_1_2_aarch64",
         "macos_10_9_x86_64", "macos_10_15_x86_64", "macos_11_0_x86_64", "macos_14_0_x86_64", "macos_11_0_arm64", "macos_14_0_arm64", "macos_12_3_arm64", "macos_12_0_arm64", "windows_amd64", "windows_x86", "windows_arm64"]
IMPLS = [None, ("cpython", False), ("cpython", True), ("pypy", False)]
PYTAGS = ["cp38", "cp39", "cp310", "cp312", "py3", "py2", "py38", "pp310", "cp27", "py2.py3"]
ABIS = ["none", "abi3", "cp38", "cp39", "cp310", "cp312", "cp312t", "cp27mu", "pypy310_pp73"]

specs = []
for rp, pl, im in itertools.product(RPS, PLATS, IMPLS):
    specs.append(((rp, pl, im), EnvSpec.from_spec(rp, pl, im[0] if im else None, im[1] if im else False)))
bad = collections.OrderedDict(); cnt = collections.Counter()
def rec(k, w): cnt[k] += 1; bad.setdefault(k, w)
def subset(a, b):
    """a ⊆ b on specifiers: a & ~b empty"""
    return (P(a) & ~P(b)).is_empty() if b != "" else True
alltags = set()
for _, s in specs:
    if s.platform: alltags |= set(s.platform.compatible_tags)
alltags = sorted(alltags) + ["any"]
rnd = random.Random(1)
n = 0
# compare() laws
for (ka, a), (kb, b) in itertools.product(specs, repeat=2):
    n += 1
    ab, ba = a.compare(b), b.compare(a)
    if ka == kb and ab != EC.LOWER_OR_EQUAL: rec(("reflexive",), ka)
    if (ab == EC.INCOMPATIBLE) != (ba == EC.INCOMPATIBLE): rec(("incompat-asym",), (ka, kb, ab, ba))
    if ab == EC.HIGHER and ba == EC.HIGHER: rec(("both-higher",), (ka, kb))
    if a.platform and b.platform and ab != EC.INCOMPATIBLE:
        ta, tb = set(a.platform.compatible_tags), set(b.platform.compatible_tags)
        if ab == EC.LOWER_OR_EQUAL and not ta <= tb: rec(("loe-not-nested", type(a.platform.os).__name__), (ka, kb, sorted(ta - tb)[:4]))
        if ab == EC.HIGHER and not tb <= ta: rec(("higher-not-nested", type(a.platform.os).__name__), (ka, kb, sorted(tb - ta)[:4]))
print("pairs", n)
# monotonicity in requires_python
m = 0
for rpa, rpb in itertools.product(RPS, repeat=2):
    if not subset(rpa, rpb): continue
    for pl, im in itertools.product(PLATS[:6], IMPLS):
        A = EnvSpec.from_spec(rpa, pl, im[0] if im else None, im[1] if im else False)
        B = EnvSpec.from_spec(rpb, pl, im[0] if im else None, im[1] if im else False)
        for pt, abi in itertools.product(PYTAGS, ABIS):
            for plat in (["any"], [rnd.choice(alltags)]):
                m += 1
                ca = A.compatibility(pt.split("."), [abi], plat); cb = B.compatibility(pt.split("."), [abi], plat)
                if ca is not None and cb is None: rec(("rp-mono",), (rpa, rpb, pl, im, pt, abi, plat, ca))
print("mono", m)
for k, v in bad.items(): print(cnt[k], k, v)
