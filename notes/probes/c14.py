import random, sys, collections
from packaging.version import Version
from dep_logic.specifiers import *
from dep_logic.specifiers import parse_version_specifier as P
seed=int(sys.argv[1]);N=int(sys.argv[2]); rnd=random.Random(seed)
def rv():
    rel=[rnd.choice([0,1,2,9,10]) for _ in range(rnd.choice([1,2,2,3]))]
    s=".".join(map(str,rel))
    if rnd.random()<0.2: s+=rnd.choice(["a1","rc1"])
    if rnd.random()<0.15: s+=".post1"
    if rnd.random()<0.15: s+=".dev1"
    return s
def leaf():
    k=rnd.random()
    if k<0.6: return f"{rnd.choice(['>=','>','<','<=','==','!='])}{rv()}"
    if k<0.8: 
        a,b=sorted([rv(),rv()],key=Version); return f">={a},<{b}"
    return f"{rnd.choice(['==','!='])}{rnd.choice([0,1,2,9])}.{rnd.choice([0,1,2])}.*"
def gen(d):
    if d==0 or rnd.random()<0.35: return P(leaf())
    k=rnd.random()
    if k<0.2: return ~gen(d-1)
    a,b=gen(d-1),gen(d-1)
    return a&b if k<0.6 else a|b
bad=collections.OrderedDict(); cnt=collections.Counter()
def rec(k,w): cnt[k]+=1; bad.setdefault(k,w)
E=EmptySpecifier(); A=RangeSpecifier()
for i in range(N):
    a,b,c=gen(2),gen(2),gen(2)
    laws={
     "comm&":(a&b,b&a),"comm|":(a|b,b|a),"assoc&":((a&b)&c,a&(b&c)),"assoc|":((a|b)|c,a|(b|c)),
     "idem&":(a&a,a),"idem|":(a|a,a),"absorb1":(a&(a|b),a),"absorb2":(a|(a&b),a),
     "dist1":(a&(b|c),(a&b)|(a&c)),"dist2":(a|(b&c),(a|b)&(a|c)),"invol":(~~a,a),
     "dm1":(~(a&b),~a|~b),"dm2":(~(a|b),~a&~b),"compl&":(a&~a,E),"compl|":(a|~a,A),
    }
    for k,(l,r) in laws.items():
        if not (l==r): rec((k,),(repr(a),repr(b),repr(c),repr(l),repr(r)))
        elif hash(l)!=hash(r): rec((k,"hash"),(repr(l),repr(r)))
    if (a|~a).is_any() is not True or (a&~a).is_empty() is not True: rec(("flags",),repr(a))
print("ok",N)
for k,v in bad.items(): print(cnt[k],k,v)
