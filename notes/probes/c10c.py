from dep_logic.markers import parse_marker as PM
from dep_logic.markers.single import _merge_single_markers
from dep_logic.utils import cnf, dnf
def clear():
    PM.cache_clear(); _merge_single_markers.cache_clear(); cnf.cache_clear(); dnf.cache_clear()
def probe():
    a=PM('os_name == "a" or os_name == "b"'); b=PM('sys_platform == "linux" and python_version >= "3.8"')
    return str(a|b), str(a&b), str(b|a)
clear(); cold=probe()
clear()
h=PM('os_name == "b" or os_name == "a"'); x=PM('sys_platform == "linux" and python_version >= "3.8"')
h|x; h&x; x|h
warm=probe()
print(cold); print(warm); print(cold==warm)
# '3.10' vs '3.10.0'
def probe2():
    a=PM('python_full_version >= "3.10" and os_name == "nt"'); b=PM('python_full_version < "3.12"')
    return str(a&b), str(a|b)
clear(); c2=probe2(); clear()
h=PM('python_full_version >= "3.10.0" and os_name == "nt"') & PM('python_full_version < "3.12.0"'); h2=PM('python_full_version >= "3.10.0" and os_name == "nt"') | PM('python_full_version < "3.12.0"')
w2=probe2(); print(c2); print(w2); print(c2==w2)
