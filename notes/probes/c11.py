import itertools, collections, sys
from dep_logic.markers.single import MarkerExpression as ME
from dep_logic.markers import AnyMarker, EmptyMarker
from dep_logic.specifiers import parse_version_specifier as P
bad=collections.OrderedDict(); cnt=collections.Counter()
def rec(k,w): cnt[k]+=1; bad.setdefault(k,w)
INTERP=[f"{X}.{Y}.{Z}" for X in (2,3,4) for Y in (0,1,6,7,8,9,10,11,12) for Z in (0,1,2,5,10)]
def env(v):
    p=v.split("."); return {"python_full_version":v,"python_version":".".join(p[:2])}
OPS=["==","!=","<","<=",">",">=","~="]
PV=["2","3","4","3.0","3.1","3.7","3.8","3.10","2.7"]
PFV=["3","3.0","3.7","3.8","3.10","3.7.0","3.7.1","3.8.2","3.10.0","3.10.5","2.7.10"]
n=0
for name,vals in (("python_version",PV),("python_full_version",PFV)):
    atoms=[]
    for op,v in itertools.product(OPS,vals):
        if op=="~=" and "." not in v: continue
        atoms.append((op,v))
    for v in vals:
        for op in ("==","!="):
            atoms.append((op, v+".*"))
            if "." in v: atoms.append((op, v.rsplit(".",1)[0]+".*"))
    if name=="python_version":
        for vs in (["3.7"],["3.7","3.8"],["2.7","3.10","3.1"],["3.10","3.11"]):
            for sep in (", ",","):
                for op in ("in","not in"): atoms.append((op,sep.join(vs)))
    for op,v in atoms:
        m=ME(name,op,v)
        try: s=m.specifier
        except Exception as e: rec(("spec-exc",name,op,type(e).__name__),(v,str(e))); continue
        for iv in INTERP:
            n+=1
            key = env(iv)[name]
            try: ev=m.evaluate(env(iv))
            except Exception as e: rec(("eval-exc",name,op),(v,iv,str(e))); break
            inn = key in s
            if ev!=inn: rec(("view",name,op,len(v.split("."))),(v,iv,key,ev,inn))
# from_specifier
SPECS=[f"{op}{v}" for op in OPS for v in ["3","3.7","3.7.0","3.7.2","3.10","2.7"] if not(op=="~=" and "." not in v)]+[f"{op}{v}.*" for op in ("==","!=") for v in ["3","3.7","3.10","3.7.1"]]
for name in ("python_version","python_full_version"):
    for st in SPECS:
        sp=P(st)
        try: m=ME.from_specifier(name,sp)
        except Exception as e: rec(("fs-exc",name,type(e).__name__),(st,str(e))); continue
        if m is None: continue
        for iv in INTERP:
            n+=1
            key=env(iv)[name]
            try: ev=m.evaluate(env(iv))
            except Exception as e: rec(("fs-eval-exc",name),(st,str(m),iv,str(e))); break
            if ev!=(key in sp): rec(("from_spec",name,st[:2], st.endswith('*')),(st,str(m),iv,ev,key in sp))
print(n)
for k,v in bad.items(): print(cnt[k],k,v)
