"""C09 probe: platform tags vs independent oracle + packaging.tags with stubs."""
import itertools, sys
from unittest import mock
from dep_logic.tags.platform import Platform, Arch
from dep_logic.tags import os as dos
import packaging.tags as pt, packaging._manylinux as ml, packaging._musllinux as mu

bad = {}
def rec(k, w): bad.setdefault(k, w)

def pkg_manylinux(major, minor, arch):
    archs = [arch]
    with mock.patch.object(ml, "_get_glibc_version", lambda: ml._GLibCVersion(major, minor)), \
         mock.patch.object(ml, "_have_compatible_abi", lambda exe, a: True), \
         mock.patch.object(ml, "_get_manylinux_module", lambda: None):
        return list(ml.platform_tags(archs)) + [f"linux_{arch}"]

def pkg_musl(major, minor, arch):
    with mock.patch.object(mu, "_get_musl_version", lambda exe: mu._MuslVersion(major, minor)):
        return list(mu.platform_tags([arch]))

def pkg_mac(major, minor, arch):
    return list(pt.mac_platforms((major, minor), arch))

n = 0
ARCHS = ["x86_64", "aarch64", "armv7l", "ppc64le", "ppc64", "s390x", "riscv64"]
for arch in ARCHS:
    for minor in range(5, 51):
        p = Platform(dos.Manylinux(2, minor), Arch(arch))
        got = p.compatible_tags
        try:
            exp = pkg_manylinux(2, minor, arch)
        except Exception as e:
            rec(("pkg-exc", type(e).__name__), str(e)); continue
        n += 1
        if got != exp:
            rec(("manylinux", arch, "order" if set(got) == set(exp) else "set"), (minor, got[:6], exp[:6], sorted(set(got) ^ set(exp))[:8]))
for arch in ARCHS:
    for minor in range(1, 6):
        p = Platform(dos.Musllinux(1, minor), Arch(arch))
        got = p.compatible_tags; exp = pkg_musl(1, minor, arch) + [f"linux_{arch}"]
        n += 1
        if set(got) != set(exp): rec(("musl", arch), (minor, got, exp))
for arch, parch in (("x86_64", "x86_64"), ("aarch64", "arm64")):
    for major, minor in [(10, m) for m in range(4, 17)] + [(M, m) for M in range(11, 31) for m in (0, 3)]:
        p = Platform(dos.Macos(major, minor), Arch(arch))
        try: got = p.compatible_tags
        except Exception as e: rec(("mac-exc", arch, type(e).__name__), (major, minor, str(e))); continue
        exp = pkg_mac(major, minor, parch)
        n += 1
        # property doesn't claim fat*
        if got != exp:
            kind = "order" if set(got) == set(exp) else "set"
            rec(("mac", arch, major == 10, kind), ((major, minor), [t for t in got if t not in exp][:6], [t for t in exp if t not in got][:6]))
for a, exp in (("x86", ["win32"]), ("x86_64", ["win_amd64"]), ("aarch64", ["win_arm64"])):
    got = Platform(dos.Windows(), Arch(a)).compatible_tags
    if got != exp: rec(("win", a), got)
print("checked", n)
for k, v in bad.items(): print(k, v)
