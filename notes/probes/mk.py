import random, sys, itertools, collections
from packaging.markers import Marker
from dep_logic.markers import *
from dep_logic.markers.single import SingleMarker, EqualityMarkerUnion, InequalityMultiMarker, MarkerExpression
from dep_logic.markers import parse_marker as PM

STRVARS=["os_name","sys_platform","platform_machine","platform_system","implementation_name"]
STRLIT=["linux","linux2","lin","win32","win","darwin","nt","posix","","x86_64","arm64","cpython","pypy"]
PYV=["2.7","3","3.0","3.1","3.6","3.7","3.8","3.9","3.10","3.11","3.12"]
PYFV=["2.7","2.7.18","3","3.0","3.1.5","3.6","3.6.0","3.6.2","3.7","3.7.0","3.7.9","3.8.0","3.8.1","3.9","3.10","3.10.0","3.10.4","3.11","3.12.1"]
REL=["4.19","5.10","5.10.0","6","6.1","6.1.0","10.0"]
EXTRAS=["a","b","Foo-Bar","foo_bar","c"]
CMP=["==","!=","<","<=",">",">="]
class Cfg:
    reversed_ok=True; pyv1=True; prerel=False; rev_in=False; tilde=True; wildcard=True; pyin=True; extras=True; strin=True; release=True
def q(s): return f'"{s}"'
def atom(rnd,cfg):
    k=rnd.random()
    if k<0.35:
        var=rnd.choice(STRVARS); op=rnd.choice(["==","!=","in","not in"] if cfg.strin else ["==","!="]); lit=rnd.choice(STRLIT)
        if cfg.reversed_ok and rnd.random()<0.2 and (op in("==","!=") or cfg.rev_in):
            return f"{q(lit)} {op} {var}"
        return f"{var} {op} {q(lit)}"
    if k<0.9:
        var=rnd.choice(["python_version","python_version","python_full_version","python_full_version"]+(["platform_release"] if cfg.release else []))
        pool={"python_version":PYV,"python_full_version":PYFV,"platform_release":REL}[var]
        r=rnd.random()
        if r<0.1 and cfg.pyin and var=="python_version":
            vals=rnd.sample([p for p in PYV if "." in p], rnd.randint(1,3))
            return f"{var} {rnd.choice(['in','not in'])} {q(rnd.choice([', ',',']) .join(vals))}"
        if r<0.2 and cfg.tilde:
            v=rnd.choice([p for p in pool if "." in p]); return f"{var} ~= {q(v)}"
        if r<0.3 and cfg.wildcard:
            v=rnd.choice(pool); v=".".join(v.split(".")[:rnd.randint(1,2)])
            if not cfg.pyv1 and var=="python_version" and "." not in v: v+=".0"
            return f"{var} {rnd.choice(['==','!='])} {q(v+'.*')}"
        op=rnd.choice(CMP); v=rnd.choice(pool if cfg.pyv1 or var!="python_version" else [p for p in pool if "." in p])
        if cfg.reversed_ok and rnd.random()<0.15: return f"{q(v)} {op} {var}"
        return f"{var} {op} {q(v)}"
    if cfg.extras:
        return f"extra {rnd.choice(['==','!='])} {q(rnd.choice(EXTRAS))}"
    return atom(rnd,cfg)
def text(rnd,cfg,d):
    if d==0 or rnd.random()<0.3: return atom(rnd,cfg)
    n=rnd.randint(2,3); op=rnd.choice([" and "," or "])
    parts=[text(rnd,cfg,d-1) for _ in range(n)]
    return op.join(f"({p})" if rnd.random()<0.7 or " or " in p or " and " in p else p for p in parts)
def envs(rnd,n):
    out=[]
    for _ in range(n):
        fv=rnd.choice(["2.7.18","3.0.1","3.1.5","3.5.10","3.6.0","3.6.2","3.7.0","3.7.9","3.8.0","3.8.1","3.9.0","3.9.18","3.10.0","3.10.4","3.11.0","3.12.1","3.13.0"])
        e={"python_full_version":fv,"python_version":".".join(fv.split(".")[:2]),
           "platform_release":rnd.choice(["4.19.0","5.10","5.10.0","5.10.1","6.0","6.1.0","6.2","10.0","10.0.1"]),
           "extra":rnd.choice(["", "a","b","foo-bar","c"]) if rnd.random()<0.5 or getattr(Cfg,"strextra",False) else set(rnd.sample(["a","b","foo-bar","c","Foo.Bar","d"],rnd.randint(0,3)))}
        for v in STRVARS: e[v]=rnd.choice(STRLIT+["other"])
        out.append(e)
    return out
def names(m,acc=None):
    acc=set() if acc is None else acc
    if isinstance(m,SingleMarker): acc.add(m.name)
    elif isinstance(m,(MultiMarker,MarkerUnion)):
        for c in m.markers: names(c,acc)
    return acc
def nf(m,top=True):
    """normal-form violations"""
    if isinstance(m,(AnyMarker,EmptyMarker)): return None if top else "trivial child "+type(m).__name__
    if isinstance(m,SingleMarker):
        if isinstance(m,(EqualityMarkerUnion,InequalityMultiMarker)) and len(m.values)<2: return "short group"
        return None
    if isinstance(m,(MultiMarker,MarkerUnion)):
        if len(m.markers)<2: return "short compound"
        if len(set(m.markers))!=len(m.markers): return "dup children"
        for c in m.markers:
            if type(c) is type(m): return "nested same kind"
            r=nf(c,False)
            if r: return r
        return None
    return "type?"
def ev(m,e):
    return m.evaluate(dict(e))
def pk(t,e):
    return Marker(t).evaluate(dict(e))
