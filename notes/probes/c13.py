import itertools, collections, random
from dep_logic.specifiers import *
from dep_logic.specifiers import parse_version_specifier as P
from dep_logic.markers import *
from dep_logic.markers import parse_marker as PM
from dep_logic.specifiers.generic import GenericSpecifier as G
bad=collections.OrderedDict(); cnt=collections.Counter()
def rec(k,w): cnt[k]+=1; bad.setdefault(k,w)
S=[P(t) for t in ["", ">=1", ">=1.0", ">=1.0.0", "<2", "==1.0", "==1", "!=1.0", "!=1", "==1.*", ">=1,<2", "~=1.0", ">=1.0,<2.0", "<empty>", ">=2,<1", "<1||>2", "<1||>=2", "!=1.*", "===1.0", "===abc"]]
S+=[AnySpecifier(), EmptySpecifier(), RangeSpecifier(), ~P(">=1"), ~~P(">=1"), ~P("<empty>"), ~P(""), P(">=1")|P("<1"), P(">=1")&P("<1"), G("==","a"), G("==","a"), G("!=","a"), G("in","a")]
M=[PM(t) for t in ['', '<empty>', 'python_version >= "3.8"', '"3.8" <= python_version', 'python_version >= "3.8.0"', 'python_full_version >= "3.8"', 'os_name == "nt"', '"nt" == os_name', 'os_name == "nt" or os_name == "posix"', 'os_name == "posix" or os_name == "nt"', 'os_name != "nt" and os_name != "posix"','os_name != "posix" and os_name != "nt"', 'os_name == "nt" and python_version >= "3.8"', 'python_version >= "3.8" and os_name == "nt"', 'os_name == "nt" or python_version >= "3.8"', 'python_version >= "3.8" or os_name == "nt"', 'extra == "a"', 'extra == "A"']]
M+=[AnyMarker(), EmptyMarker(), PM('os_name == "nt"')&PM('os_name == "posix"'), PM('os_name == "nt"')|PM('os_name != "nt"')]
for fam,objs in (("spec",S),("marker",M)):
    for x in objs:
        try:
            if not (x==x): rec((fam,"refl"),repr(x))
            hash(x)
        except Exception as e: rec((fam,"exc",type(e).__name__),(repr(x),str(e)))
    for x,y in itertools.product(objs,repeat=2):
        try:
            e1=(x==y); e2=(y==x)
            if e1!=e2: rec((fam,"sym",type(x).__name__,type(y).__name__),(repr(x),repr(y),e1,e2))
            if e1 and hash(x)!=hash(y): rec((fam,"hash",type(x).__name__,type(y).__name__),(repr(x),repr(y)))
            if e1 and ({x:1}.get(y) is None): rec((fam,"dictkey",type(x).__name__,type(y).__name__),(repr(x),repr(y)))
        except Exception as e: rec((fam,"exc2",type(e).__name__),(repr(x),repr(y),str(e)))
    for x,y,z in itertools.product(objs,repeat=3):
        if x==y and y==z and not x==z: rec((fam,"trans"),(repr(x),repr(y),repr(z)))
for k,v in bad.items(): print(cnt[k],k,v)
print("done")
