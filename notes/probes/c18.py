import random, sys, collections
from packaging.utils import parse_wheel_filename, InvalidWheelFilename as PIW
from dep_logic.tags.tags import parse_wheel_tags, InvalidWheelFilename
from dep_logic.tags import Platform, EnvSpec
rnd=random.Random(int(sys.argv[1]))
bad=collections.OrderedDict(); cnt=collections.Counter()
def rec(k,w): cnt[k]+=1; bad.setdefault(k,w)
NAMES=["foo","foo_bar","Foo.Bar","foo_bar_baz","a","zope.interface","ruamel.yaml.clib"]
VERS=["1.0","1.0.0","2024.1.1","1.0a1","1.0.post1","1.0.dev1","1!2.0","1.0+local.1","0.1rc2"]
BUILDS=[None,"1","2abc","0","123_x"]
PY=["py3","py2.py3","cp38","cp310","cp38.cp39","pp310"]
ABI=["none","abi3","cp38","cp310","cp38m","pypy310_pp73","cp313t","abi3.cp38"]
PLAT=["any","linux_x86_64","manylinux_2_17_x86_64.manylinux2014_x86_64","macosx_10_9_x86_64","win_amd64","macosx_11_0_arm64.macosx_10_9_universal2","manylinux1_i686"]
n=0
for i in range(int(sys.argv[2])):
    parts=[rnd.choice(NAMES).replace("-","_"), rnd.choice(VERS)]
    b=rnd.choice(BUILDS)
    if b: parts.append(b)
    parts+= [rnd.choice(PY),rnd.choice(ABI),rnd.choice(PLAT)]
    fn="-".join(parts)+".whl"
    # mutations
    r=rnd.random()
    if r<0.1: fn=fn[:-4]+rnd.choice([".zip",".whl.txt","",".WHL",".tar.gz"])
    elif r<0.2: fn="-".join(fn.split("-")[rnd.randint(1,3):])
    elif r<0.25: fn="x-"+"y-"+fn
    n+=1
    try: exp=parse_wheel_filename(fn); eexc=None
    except PIW as e: exp=None; eexc=e
    except Exception as e: exp=None; eexc=e
    try: got=parse_wheel_tags(fn); gexc=None
    except InvalidWheelFilename as e: got=None; gexc=e
    except Exception as e:
        rec(("other-exc",type(e).__name__),(fn,str(e))); continue
    if exp is not None:
        tags=exp[3]
        ep=({t.interpreter for t in tags},{t.abi for t in tags},{t.platform for t in tags})
        if got is None: rec(("rejects-valid",),(fn,str(gexc)))
        elif (set(got[0]),set(got[1]),set(got[2]))!=ep: rec(("tags-differ",),(fn,got,ep))
    else:
        if got is not None:
            ext = fn.endswith(".whl"); dashes=fn[:-4].count("-") if ext else None
            rec(("accepts-invalid", ext, dashes),(fn,str(eexc)[:80]))
print(n)
for k,v in bad.items(): print(cnt[k],k,v)
# platform roundtrip
ARCH=["x86_64","aarch64","arm64","amd64","x86","i686","armv7l","ppc64le","s390x","riscv64","loongarch64","ppc64","armv6l","i386"]
for name in Platform.choices():
    for X,Y in [(2,17),(10,9),(14,0),(1,2),(11,0),(2,5),(12,34),(100,200)]:
        s=name.replace("X",str(X)).replace("Y",str(Y))
        try:
            p=Platform.parse(s)
            if Platform.parse(str(p))!=p: print("roundtrip-ne",s,str(p))
        except Exception as e: print("choice-parse-exc",s,type(e).__name__,e)
for osn in ["manylinux","musllinux","macos"]:
    for a in ARCH:
        for X,Y in [(2,17),(10,9),(1,2),(12,34)]:
            s=f"{osn}_{X}_{Y}_{a}"
            try:
                p=Platform.parse(s)
                if (p.os.major,p.os.minor)!=(X,Y): print("mm-wrong",s,p)
                if Platform.parse(str(p))!=p: print("roundtrip-ne",s,str(p))
            except Exception as e: print("parse-exc",s,type(e).__name__,e)
for a in ARCH:
    s=f"windows_{a}"
    try:
        p=Platform.parse(s)
        if Platform.parse(str(p))!=p: print("roundtrip-ne",s,str(p))
    except Exception as e: print("parse-exc",s,type(e).__name__,e)
for al,tg in {"linux":"manylinux_2_17_x86_64","windows":"windows_amd64","macos":"macos_14_0_arm64","alpine":"musllinux_1_2_x86_64","macos_arm64":"macos_14_0_arm64","macos_x86_64":"macos_14_0_x86_64"}.items():
    if Platform.parse(al)!=Platform.parse(tg): print("alias",al,tg)
