import itertools
from dep_logic.specifiers.generic import GenericSpecifier as G
from dep_logic.specifiers import EmptySpecifier, AnySpecifier
LIT=["", "a","b","ab","abc","linux","linux2","win32","darwin","lin", "x"]
CAND=LIT+["zz","nux","c","bc", "linux22"]
OPS=["==","!=","in","not in"]
def mem(s,c):
    return c in s
bad={}
n=0;ni=0
for (o1,v1),(o2,v2) in itertools.product(itertools.product(OPS,LIT),repeat=2):
    a,b=G(o1,v1),G(o2,v2)
    for name,fn,comb in [("and",lambda:a&b,lambda x,y:x and y),("or",lambda:a|b,lambda x,y:x or y)]:
        try: r=fn()
        except NotImplementedError: ni+=1; continue
        for c in CAND:
            n+=1
            exp=comb(mem(a,c),mem(b,c))
            got=mem(r,c)
            if exp!=got: bad.setdefault((name,o1,o2,type(r).__name__, (v1==v2, v1 in v2, v2 in v1)),(str(a),str(b),repr(r),c,exp,got))
for o,v in itertools.product(OPS,LIT):
    a=G(o,v); r=~a
    for c in CAND:
        if mem(r,c)==mem(a,c): bad.setdefault(("inv",o),(str(a),c))
print(n,ni)
for k,v in sorted(bad.items(), key=str): print(k,v)
