from dep_logic.markers import parse_marker as PM
from dep_logic.specifiers import parse_version_specifier as P, AnySpecifier, RangeSpecifier, EmptySpecifier
from dep_logic.tags import EnvSpec, Platform
from packaging.markers import Marker
def w(label, f):
    try: print(f"{label}: {f()}")
    except Exception as e: print(f"{label}: EXC {type(e).__name__}: {e}")
w("F1a '1.0' in P('>=2,<1')", lambda: "1.0" in P(">=2,<1"))
w("F1b '1.0' in ~P('>=2,<1')", lambda: "1.0" in ~P(">=2,<1"))
m=PM('os_name == "a" or os_name == "b"') | PM('os_name != "a"')
w("F2 (os_name==a or ==b) | os_name!=a", lambda: (str(m), m.evaluate({"os_name":"a"})))
w("F3 '\"3.8\" < python_version' @3.9", lambda: (PM('"3.8" < python_version').evaluate({"python_version":"3.9"}), Marker('"3.8" < python_version').evaluate({"python_version":"3.9"})))
m4=PM('"linux" in sys_platform and sys_platform == "linux2"')
w("F4", lambda: (str(m4), m4.evaluate({"sys_platform":"linux2"}), Marker('"linux" in sys_platform and sys_platform == "linux2"').evaluate({"sys_platform":"linux2"})))
a=PM('python_version not in "3.10, 3.11"'); b=PM('python_version < "3.6"')
w("F5 a&b @3.1", lambda: (str(a&b), (a&b).evaluate({"python_version":"3.1","python_full_version":"3.1.5"}), a.evaluate({"python_version":"3.1"}), b.evaluate({"python_version":"3.1"})))
w("F6 P('==1!0.*')", lambda: P("==1!0.*"))
w("F7 P('~=1.0c1')", lambda: (P("~=1.0c1").min, P("~=1.0c1").max))
r=P(">=1.5,<2.0.post1"); w("F8", lambda: (str(r), P(str(r))==r))
w("F9 py36-none-any vs >=3.8", lambda: EnvSpec.from_spec(">=3.8").compatibility(["py36"],["none"],["any"]))
w("F10 cp31-cp312 vs ==3.1.*", lambda: EnvSpec.from_spec("==3.1.*").compatibility(["cp31"],["cp312"],["any"]))
w("F11 macos_10_9_arm64 tags", lambda: Platform.parse("macos_10_9_arm64").compatible_tags[:3])
a=PM('python_full_version < "3.8"'); b=PM('python_full_version >= "3.8"'); e={"python_full_version":"3.8.0rc1","python_version":"3.8"}
w("F12 (a|b) @3.8.0rc1", lambda: (repr(str(a|b)), (a|b).evaluate(e), a.evaluate(e), b.evaluate(e)))
a=PM('python_version > "3"'); b=PM('python_full_version != "3.1.5"'); e={"python_full_version":"3.1.5","python_version":"3.1"}
w("F13 a&b @3.1.5", lambda: (str(a&b), (a&b).evaluate(e), a.evaluate(e), b.evaluate(e)))
t='python_full_version == "3.*" or python_version == "3.9"'; e={"python_full_version":"3.7.0","python_version":"3.7"}
w("F14", lambda: (str(PM(t)), PM(t).evaluate(e), Marker(t).evaluate(e)))
a=PM('python_full_version ~= "3.10"') ; b=PM('python_version ~= "3.8"'); e={"python_full_version":"3.11.0","python_version":"3.11"}
w("F14b a&b", lambda: (str(a&b), (a&b).evaluate(e), a.evaluate(e) and b.evaluate(e)))
w("F15", lambda: (AnySpecifier()==RangeSpecifier(), hash(AnySpecifier())==hash(RangeSpecifier())))
a=PM('extra != "foo_bar"'); b=PM('python_full_version == "3.*" and python_full_version > "3.7" or python_full_version != "3.7.9"')
w("F16", lambda: repr(a&b))
# search smaller F16
import itertools
atoms=['os_name == "nt"','os_name != "nt"','extra == "a"','python_version >= "3.8"','python_version < "3.8"','sys_platform == "linux"']
from dep_logic.markers import MultiMarker, MarkerUnion
def bad(m):
    if isinstance(m,(MultiMarker,MarkerUnion)):
        return len(m.markers)<2 or any(bad(c) for c in m.markers)
    return False
found=0
for x,y,z,u in itertools.product(atoms,repeat=4):
    for ta,tb in ((f'({x} and {y}) or ({x} and {z})', u),(f'({x} and {y}) or {z}', f'({x} and {u}) or {z}'),(f'({x} or {y}) and ({x} or {z})', u)):
        for op in "&|":
            A,B=PM(ta),PM(tb)
            r=A&B if op=="&" else A|B
            if bad(r) and found<3: found+=1; print("F16-min",ta,op,tb,"->",repr(r))
