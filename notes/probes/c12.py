import sys,random,collections,signal,itertools
from mk import *
seed=int(sys.argv[1]);N=int(sys.argv[2])
rnd=random.Random(seed); cfg=Cfg()
for a in sys.argv[3:]:
    k,v=a.split("="); setattr(cfg,k,v=="1")
bad=collections.OrderedDict(); cnt=collections.Counter()
def rec(k,w): cnt[k]+=1; bad.setdefault(k,w)
class TO(Exception): pass
def onalarm(s,f): raise TO()
signal.signal(signal.SIGALRM,onalarm)
n=0
for i in range(N):
    ta,tb,tc=[text(rnd,cfg,1) for _ in range(3)]
    E=envs(rnd,20)
    signal.alarm(5)
    try:
        a,b,c=PM(ta),PM(tb),PM(tc)
        m=rnd.choice([a&b,a|b,(a&b)|c,(a|b)&c,a])
        vs=sorted(names(m))
        # only
        for k in range(0,len(vs)+1):
            for sub in ([tuple(rnd.sample(vs,k))] if vs else [()]):
                n+=1
                if not sub: continue
                o=m.only(*sub)
                if not names(o)<=set(sub): rec(("only-leak",),(str(m),sub,str(o)))
                if nf(o): rec(("only-nf",nf(o)),(str(m),sub,repr(o)))
                for e in E:
                    if ev(m,e) and not ev(o,e): rec(("only-not-implied",),(str(m),sub,str(o),{x:e[x] for x in vs})); break
                if set(sub)>=set(vs):
                    for e in E:
                        if ev(m,e)!=ev(o,e): rec(("only-all-changes",),(str(m),sub,str(o))); break
        for name in vs+["platform_version"]:
            x=m.exclude(name)
            if name in names(x): rec(("exclude-leak",),(str(m),name,str(x)))
            if nf(x): rec(("exclude-nf",nf(x)),(str(m),name,repr(x)))
            if name not in vs:
                for e in E:
                    if ev(m,e)!=ev(x,e): rec(("exclude-unrelated-changes",),(str(m),name,str(x))); break
        w=m.without_extras()
        if "extra" in names(w): rec(("we-leak",),(str(m),str(w)))
        if "extra" not in vs:
            for e in E:
                if ev(m,e)!=ev(w,e): rec(("we-changes",),(str(m),str(w))); break
    except TO: rec(("TIMEOUT",),(ta,tb,tc))
    except Exception as ex: rec(("exc",type(ex).__name__),(ta,tb,tc,str(ex)[:100]))
    finally: signal.alarm(0)
print(n)
for k,v in bad.items(): print(cnt[k],k,v)
