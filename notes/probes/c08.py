import itertools, re, sys, collections
from packaging.version import Version
from dep_logic.tags import EnvSpec, Implementation, Platform
from dep_logic.specifiers import parse_version_specifier as P

RPS = ["", ">=3.8", ">=3.8,<3.11", "==3.9.*", "!=3.10.*", ">=3.7,!=3.9.*", "<3.0", ">=2.7,!=3.0.*,!=3.1.*", "==3.8.10",
       ">3.9.5,<3.10", ">=3.10.2,<3.10.5", ">=3", "<4", ">=4", "~=3.8", "~=3.8.2", ">=3.13", "<3.6||>=3.9", "==2.7.*||>=3.5",
       ">=3.6,<3.6.1", ">3.6", "<=3.6", "<3.6", ">=3.20", "<2", "==3.1.*", "==3.12.*", "==3.1.*||==3.12.*", ">=3.10", "<3.10", "<=3.10", ">3.10"]
# candidate interpreters: X.Y.Z and 'between' points X.Y.Z.1
CANDS = [Version(f"{X}.{Y}.{Z}{w}") for X in (1, 2, 3, 4) for Y in range(0, 23) for Z in range(0, 12) for w in ("", ".1")]
def admitted(rp):
    s = P(rp)
    from lib01 import mem
    return [v for v in CANDS if mem(s, v)]

PYTAGS = [f"{i}{X}{Y}" for i in ("cp", "py", "pp") for X in (2, 3) for Y in [""] + list(range(0, 21))]
def abis_for(pt):
    out = ["none", "abi3"]
    for i in ("cp",):
        for X in (2, 3):
            for Y in (1, 6, 8, 10, 12, 13, 18):
                for fl in ("", "m", "mu", "d", "t", "dm"):
                    out.append(f"cp{X}{Y}{fl}")
    for Y in (8, 10): out.append(f"pypy3{Y}_pp73")
    return out
ABIS = abis_for(None)
IMPLS = [None, ("cpython", False), ("cpython", True), ("pypy", False)]

def oracle(rp_adm, impl, pt, abi):
    i, X, Y = pt[:2], pt[2:3], pt[3:]
    X = int(X); Yn = int(Y) if Y else None
    short = {None: None, "cpython": "cp", "pypy": "pp"}[impl[0] if impl else None]
    gil = impl[1] if impl else None
    if short is not None and i not in (short, "py"): return None
    def ex(pred): return any(pred(v) for v in rp_adm)
    if abi == "abi3":
        if i != "cp" or gil: return None
        if not ex(lambda v: (v.major, v.minor) >= (X, Yn or 0)): return None
        return (X, Yn or 0, 1)
    if abi != "none":
        a = abi.split("_", 1)[0].replace("pypy", "pp")
        m = re.fullmatch(r"([a-z]+\d+)([a-z]*)", a)
        if not m or m.group(1) != pt: return None
        ft = m.group(2).endswith("t")
        if gil is not None and ft != gil: return None
    if i == "py":
        if Yn is None: ok = ex(lambda v: v.major == X)
        else: ok = ex(lambda v: v.major == X and v.minor >= Yn)
    else:
        if Yn is None: ok = ex(lambda v: v.major == X)
        else: ok = ex(lambda v: (v.major, v.minor) == (X, Yn))
    if not ok: return None
    return (X, Yn or 0, 0 if abi == "none" else 2)

bad = collections.OrderedDict(); cnt = collections.Counter(); n = 0
for rp in RPS:
    adm = admitted(rp)
    for impl in IMPLS:
        spec = EnvSpec.from_spec(rp, None, impl[0] if impl else None, impl[1] if impl else False)
        for pt in PYTAGS:
            for abi in ABIS:
                n += 1
                try: got = spec.compatibility([pt], [abi], ["any"])
                except Exception as e:
                    cnt[("exc", type(e).__name__)] += 1; bad.setdefault(("exc", type(e).__name__), (rp, impl, pt, abi, str(e))); continue
                exp = oracle(adm, impl, pt, abi)
                g3 = got[:3] if got else None
                if g3 != exp:
                    key = ("compat" if (g3 is None) != (exp is None) else "score", pt[:2], "minor" if pt[3:] else "major", "abi3" if abi == "abi3" else "none" if abi == "none" else "concrete", "got" if g3 else "missing")
                    cnt[key] += 1; bad.setdefault(key, (rp, impl, pt, abi, exp, got))
print("checked", n)
for k, v in bad.items(): print(cnt[k], k, v)
