#!/bin/bash
# tools/mutant.sh [-t] <patch.diff> <Cxx> [<Cxx>...]
# Apply a patch to a scratch copy of /repo (outside /repo and /verif), optionally run the pinned
# tests against it (-t), run the named checks' quick tier with VERIF_REPO pointing at the copy,
# and delete the copy.  The evidence files of /verif are restored afterwards.
set -u
TESTS=0; TIER=quick
while getopts "tT:" o; do case $o in t) TESTS=1;; T) TIER=$OPTARG;; esac; done; shift $((OPTIND-1))
PATCH=$(readlink -f "$1"); shift
D=$(mktemp -d /tmp/vfmut.XXXXXX)
trap 'rm -rf "$D"' EXIT
rsync -a --exclude .git --exclude __pycache__ /repo/ "$D/"
if ! (cd "$D" && patch -p1 -s < "$PATCH"); then echo "PATCH-FAILED $PATCH"; exit 3; fi
if [ $TESTS = 1 ]; then
  (cd /repo && PYTHONPATH="$D/src" /venv/bin/python -m pytest -q -p no:cacheprovider -x --timeout=300 \
     --deselect "tests/marker/test_evaluation.py::test_evaluate_extra[platform_release >= '6'-environment10-True]" \
     --deselect "tests/specifier/test_arbitrary.py::test_arbitrary_unsupported[===abc->=1-and]" "$D/tests" 2>&1 | tail -3)
fi
cd /verif
mkdir -p .work/evbak; cp evidence/*.json .work/evbak/ 2>/dev/null
for P in "$@"; do
  out=$(VERIF_REPO="$D" ./check "$P" --tier "$TIER" 2>&1); rc=$?
  echo "== $P rc=$rc $(echo "$out" | grep -m1 -E '^VIOLATION' )"
  echo "$out" | grep -E '^  (monitor|detail)' | head -2 | cut -c1-400
  [ $rc = 2 ] && echo "$out" | grep INCONCLUSIVE | head -3
done
cp .work/evbak/*.json evidence/ 2>/dev/null; rm -rf .work/evbak
rm -f replays/*.json 2>/dev/null
exit 0
