#!/usr/bin/env python3
"""Headroom of every deciding-monitor / shape threshold in the last evidence files (observed / required)."""
import json, importlib, sys, os
sys.path.insert(0, '/verif')
from vf import boot; boot.boot()
for i in range(1, 20):
    pid = f"C{i:02d}"
    mod = importlib.import_module(f"vf.checks.c{i:02d}")
    e = json.load(open(f"/verif/evidence/{pid}.json"))
    tier = e["tier"]
    ev, sh = e["coverage"]["events_per_monitor"], e["coverage"]["shape_classes"]
    low = []
    for name, need in list(getattr(mod, "MIN_EVENTS", {}).items()):
        n = need[tier] if isinstance(need, dict) else need
        r = ev.get(name, 0) / max(n, 1)
        if r < 5: low.append((name, ev.get(name, 0), n))
    for name, need in list(getattr(mod, "MIN_SHAPES", {}).items()):
        n = need[tier] if isinstance(need, dict) else need
        r = sh.get(name, 0) / max(n, 1)
        if r < 5: low.append((name, sh.get(name, 0), n))
    print(pid, tier, "wall", e["wall_s"], "LOW:" if low else "ok", low)
