#!/usr/bin/env python3
"""Write seeded/<id>/meta.json from the last seedcheck run and NOTES.md."""
import json, os, sys, re
root = os.path.dirname(os.path.dirname(os.path.abspath(__file__)))
NEEDS = {
 "C01": "union & range whose bound ties with the union's outermost *inclusive* bound but is exclusive (input coincidence)",
 "C02": "`v in L1 or v not in L2` on one string variable with L1 a proper substring of L2, and an environment value inside L2 but not L1",
 "C03": "a literal-on-the-left version atom evaluated twice on the same (lru-cached) atom object with a different environment value (history of calls)",
 "C04": "two crossing ranges sharing an upper bound with opposite inclusivity, the left one with an exclusive lower bound (operand coincidence, one operand order)",
 "C05": "a range touching the upper end of the LAST range of an existing union of >=2 ranges (fast path appends unmerged)",
 "C06": "union <A||>=B bounding exactly one release series where A or B carries a .post0 / .dev0 suffix (suffix number exactly 0)",
 "C07": "a compound marker with a literal-on-the-left in/not in atom rendered after its orientation twin was rendered earlier in the same process (history + equality ignoring `reversed`)",
 "C08": "cpXY and pyXY tags with the same digits evaluated in one process (history), and a requires_python separating 'X.Y only' from 'X.Y and later'",
 "C09": "a macOS x86_64 (>=11 or 10.16) target and a macOS arm64 target evaluated in the same interpreter (history: shared cache key 16)",
 "C10": "an earlier operation whose merged specifier is equal to but spelled differently from the probe's ('3.10' vs '3.10.0') (history)",
 "C11": "from_specifier('python_version', spec) with a three-component version ending in .0 whose minor ends in the digit 0 (3.10.0, 3.20.0): rstrip('.0') strips a character set",
 "C12": "marker mentioning python_version and python_full_version as separate surviving atoms, only() asked for python_version alone",
 "C13": "two grouped ==/!= atoms over the same values listed in a different order (equal, but OrderedSet hash now order-sensitive)",
 "C14": "two non-nested ranges with the same upper version, left closed / right open at it, right with inclusive lower bound (one operand order)",
 "C15": "see NOTES.md",
 "C16": "two specs of one OS family/arch whose first differing release component has a different number of digits (manylinux_2_5 vs 2_17, macos_10_9 vs 10_15)",
 "C17": "an invalid spelling with an inner blank ('> =1.0') parsed AFTER its whitespace-free valid twin in the same process (history)",
 "C18": "a .whl name with 6 or more dashes (too many parts): rsplit('-', 5) can never yield more than 6 pieces",
 "C19": "`in V & not in W` with W a strict substring of V (incl. the empty literal)",
}
for pid in sorted(os.listdir(os.path.join(root, "seeded"))):
    d = os.path.join(root, "seeded", pid)
    lr = os.path.join(d, ".last_run")
    if not os.path.exists(lr):
        continue
    parts = open(lr).read().strip().split("|")
    base, tests, mut, res = parts[:4]
    head = parts[4] if len(parts) > 4 else None
    old = os.path.join(d, "meta.json")
    if head is None and os.path.exists(old):
        head = json.load(open(old)).get("repo_head_when_confirmed")
    head = head or ("4821a27 (round 1 worktree base)" if "-r" not in pid else "da4a671 (round 2 worktree base)")
    results = dict(x.split(":rc=") for x in res.split())
    caught = [k for k, v in results.items() if v == "1"]
    meta = {
        "property": pid.split("-")[0],
        "origin": "written by an independent sub-agent that saw only the property text and a scratch worktree of /repo",
        "repo_head_when_confirmed": head,
        "needs_to_manifest": NEEDS.get(pid, "") or "see NOTES.md",
        "confirmed": {
            "demo_on_unchanged_tree_exit": int(base), "demo_with_change_exit": int(mut),
            "pinned_tests_with_change": tests.strip(),
            "how": "tools/seedcheck.sh: fresh scratch copy of /repo outside /repo and /verif, demo.py before/after the patch, pinned pytest suite with PYTHONPATH on the patched copy, then the checks with VERIF_REPO on the patched copy; copy deleted afterwards",
        },
        "checks_run": {k: {"0": "held (missed)", "1": "VIOLATION (caught)", "2": "inconclusive"}.get(v, v) for k, v in results.items()},
        "caught_by": caught,
    }
    json.dump(meta, open(os.path.join(d, "meta.json"), "w"), indent=1)
    print(pid, meta["checks_run"])
