#!/usr/bin/env python3
"""tools/mkmut.py <name> <path relative to /repo> <old> <new> [occurrence]  -> mutants/<name>.diff"""
import difflib, sys, os
name, rel, old, new = sys.argv[1:5]
occ = int(sys.argv[5]) if len(sys.argv) > 5 else None
src = open(os.path.join(os.environ.get("MUT_BASE", "/repo"), rel)).read()
n = src.count(old)
if n == 0 or (n > 1 and occ is None):
    sys.exit(f"pattern occurs {n} times")
if occ is None:
    dst = src.replace(old, new)
else:
    parts = src.split(old)
    dst = old.join(parts[:occ + 1]) + new + old.join(parts[occ + 1:])
diff = "".join(difflib.unified_diff(src.splitlines(True), dst.splitlines(True), "a/" + rel, "b/" + rel))
out = os.path.join(os.path.dirname(os.path.dirname(os.path.abspath(__file__))), "mutants", name + ".diff")
open(out, "w").write(diff)
print(out, len(diff.splitlines()), "lines")
