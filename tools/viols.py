#!/usr/bin/env python3
"""tools/viols.py Cxx  - group the replay files of a property by (monitor, what, group) and print samples."""
import json, glob, collections, sys
g = collections.OrderedDict()
for f in sorted(glob.glob(f'/verif/replays/{sys.argv[1]}-*.json')):
    v = json.load(open(f)); d = v['detail']
    g.setdefault((v['monitor'], v['what'][:90], d.get('group'), d.get('stratum')), []).append(d)
for k, ds in g.items():
    print(k, len(ds))
    for d in ds[:int(sys.argv[2]) if len(sys.argv) > 2 else 2]:
        print('     ', json.dumps({x: d[x] for x in d if x not in ('group',)}, default=str)[:700])
