#!/bin/bash
# tools/seedregress.sh [<Cxx> ...]  - re-run every kept seeded change (seeded/<id>/patch.diff) against the current
# checks: scratch copy of /repo (outside /repo and /verif), patch applied, the owning property's quick check with
# VERIF_REPO pointing at the copy.  Prints one line per seed; evidence/ and replays/ are restored afterwards.
cd /verif
FILTER="$*"
mkdir -p .work/evbak_rg; cp evidence/*.json .work/evbak_rg/ 2>/dev/null
for d in seeded/*/; do
  id=$(basename "$d"); prop=${id%%-*}
  if [ -n "$FILTER" ] && ! echo " $FILTER " | grep -q " $prop "; then continue; fi
  D=$(mktemp -d /tmp/vfrg.XXXXXX)
  rsync -a --exclude .git --exclude __pycache__ /repo/ "$D/"
  PATCH="/verif/$d/patch.diff"; [ -f "/verif/$d/patch.rebased.diff" ] && PATCH="/verif/$d/patch.rebased.diff"   # same change, re-cut after a repository fix moved its context
  if ! (cd "$D" && (git apply "$PATCH" 2>/dev/null || patch -p1 -s --fuzz=3 < "$PATCH" >/dev/null 2>&1)); then
    echo "$id PATCH-DOES-NOT-APPLY (repository moved on)"; rm -rf "$D"; continue
  fi
  out=$(VERIF_REPO="$D" ./check "$prop" --tier ${TIER:-quick} 2>&1); rc=$?
  echo "$id rc=$rc $(echo "$out" | grep -m1 -E '^VIOLATION|^INCONCLUSIVE' | cut -c1-120)"
  rm -rf "$D"
done
cp .work/evbak_rg/*.json evidence/ 2>/dev/null; rm -rf .work/evbak_rg; rm -f replays/*.json
