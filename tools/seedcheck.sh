#!/bin/bash
# tools/seedcheck.sh <Cxx> [<check ids to run>...]
# Confirm a sub-agent's seeded change from /tmp/seed-<Cxx> (patch.diff, demo.py, NOTES.md) in a fresh scratch
# copy of /repo: demo passes unchanged, pinned tests unchanged with the patch, demo fails with the patch; then run
# the named checks (default: the property's own) against the patched copy; store everything in seeded/<Cxx>/.
set -u
ID=$1; shift
CHECKS=${@:-$ID}
SRC=${SEEDDIR:-/tmp/seed-$ID}
OUT=${OUT:-$ID}
[ -f $SRC/patch.diff ] || { echo "no patch.diff in $SRC"; exit 2; }
D=$(mktemp -d /tmp/vfseed.XXXXXX); trap 'rm -rf "$D"' EXIT
rsync -a --exclude .git --exclude __pycache__ /repo/ "$D/"
cp $SRC/demo.py "$D/demo.py"
base_demo=$(cd "$D" && PYTHONPATH="$D/src" timeout 300 /venv/bin/python demo.py >/dev/null 2>&1; echo $?)
if ! (cd "$D" && git apply --check "$SRC/patch.diff" 2>/dev/null || patch -p1 --dry-run -s < "$SRC/patch.diff" >/dev/null); then echo "PATCH does not apply"; exit 3; fi
(cd "$D" && (git apply "$SRC/patch.diff" 2>/dev/null || patch -p1 -s < "$SRC/patch.diff"))
tests=$(cd /repo && PYTHONPATH="$D/src" /venv/bin/python -m pytest -q -p no:cacheprovider --timeout=600 "$D/tests" 2>&1 | tail -1)
mut_demo=$(cd "$D" && PYTHONPATH="$D/src" timeout 300 /venv/bin/python demo.py >/dev/null 2>&1; echo $?)
echo "demo unchanged rc=$base_demo | tests with patch: $tests | demo with patch rc=$mut_demo"
cd /verif
mkdir -p .work/evbak; cp evidence/*.json .work/evbak/ 2>/dev/null
RES=""
for P in $CHECKS; do
  out=$(VERIF_REPO="$D" ./check "$P" --tier ${TIER:-quick} 2>&1); rc=$?
  RES="$RES $P:rc=$rc"
  echo "== $P rc=$rc $(echo "$out" | grep -m1 -E '^VIOLATION')"
  echo "$out" | grep -E '^  (monitor|detail)' | head -2 | cut -c1-500
  [ $rc = 2 ] && echo "$out" | grep INCONCLUSIVE | head -3 | cut -c1-300
done
cp .work/evbak/*.json evidence/ 2>/dev/null; rm -rf .work/evbak; rm -f replays/*.json
mkdir -p seeded/$OUT
cp $SRC/patch.diff $SRC/demo.py seeded/$OUT/; cp $SRC/NOTES.md seeded/$OUT/ 2>/dev/null
echo "$base_demo|$tests|$mut_demo|$RES|$(git -C /repo rev-parse --short HEAD)" > seeded/$OUT/.last_run
