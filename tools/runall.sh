#!/bin/bash
# tools/runall.sh [tier] [seed]  - run every check once, print one line each, validate evidence files
TIER=${1:-quick}; SEED=${2:-0}
cd /verif
for i in 01 02 03 04 05 06 07 08 09 10 11 12 13 14 15 16 17 18 19; do
  s=$(date +%s.%N)
  out=$(VERIF_SEED=$SEED ./check C$i --tier $TIER 2>&1); rc=$?
  e=$(date +%s.%N)
  printf "C%s rc=%s %5.1fs %s\n" $i $rc $(echo "$e - $s" | bc) "$(echo "$out" | grep -E '^C[0-9]+ tier' | cut -c1-160)"
  [ $rc != 0 ] && echo "$out" | grep -E "VIOLATION|INCONCLUSIVE|monitor=|detail=" | head -6 | cut -c1-400
done
python3-vt - <<'PY'
import json, jsonschema, glob
sch = json.load(open('/root/.vp/EVIDENCE.schema.json'))
bad = 0
for f in sorted(glob.glob('/verif/evidence/C*.json')):
    try:
        jsonschema.validate(json.load(open(f)), sch)
    except Exception as e:
        bad += 1; print("EVIDENCE INVALID", f, str(e)[:200])
print("evidence files valid:", len(glob.glob('/verif/evidence/C*.json')) - bad)
PY
