#!/usr/bin/env python3
"""Regenerate /verif/MANIFEST.json from the table below."""
import json, os
HERE = os.path.dirname(os.path.dirname(os.path.abspath(__file__)))
T = {
 "C01": ("post-conditions on every specifier operator call: exact critical-point membership vectors vs Boolean combination (runtime monitor, exact per observed call)",
         "Every &, |, ~ call on interval specifiers (incl. inner calls and reflected aliases) is decided exactly for that call; reach = seeded expression trees with hostile bound coincidences and a reachability closure. Held-on-observed, not a proof.", "§3.3, §4 C01"),
 "C02": ("semantic post-conditions on all marker combinators (14 __and__/__or__, of(), cnf/dnf, intersection/union, *_simplify, _merge_*): evaluate(args) vs evaluate(result) on operand-derived critical environments, plus small-scope exhaustive strata",
         "Every combinator call (top-level and internal) is checked on sampled critical environments; three small-scope strata are enumerated exhaustively; exponential cases are inconclusive by watchdog.", "§3.5, §4 C02"),
 "C03": ("differential runtime oracle vs packaging.markers.Marker at text level and at every MarkerExpression._evaluate call",
         "Sampled texts x critical environments compared with the installed packaging; atom table enumerated.", "§4 C03"),
 "C04": ("membership monitors: tree-node `in`/contains vs packaging SpecifierSet over the leaves; post-conditions on every contains()/__contains__ call vs structural membership",
         "Sampled expression trees x derived final-release candidates; === stratum; reference asked about leaves only.", "§4 C04"),
 "C05": ("shape post-condition at every parser/operator return + exact pairwise == vs admitted-set comparison on shared critical points + denotation oracle (is_empty/is_any/== of results vs the set the whole expression denotes, incl. operator-free De Morgan paths)",
         "Canonical shape, is_empty/is_any and == are decided exactly for every observed value / pair.", "§3.3, §4 C05"),
 "C06": ("round-trip monitor str() -> parse_version_specifier -> == and exact vector equality at every tree node; enumerated neighbourhood of the rendering shortcuts",
         "Exact per rendered value; systematic stratum around ~=, ==X.*, !=X.*, !=V.", "§4 C06"),
 "C07": ("round-trip monitor str() -> parse_marker / packaging.Marker -> evaluation equivalence at every operation-tree node and on inner __str__ calls",
         "Sampled environments; small-scope strata enumerated.", "§4 C07"),
 "C08": ("post-conditions on EnvSpec._evaluate_python / compatibility vs an independent PEP 425/3149/703 rule oracle with exact 'some admitted interpreter' decision",
         "Systematic requires_python pool x implementation settings x tag universe (exhaustive over the pool in thorough).", "§4 C08"),
 "C09": ("exhaustive grid monitor: Platform.compatible_tags and EnvSpec._evaluate_platform vs independent PEP 600/656/macOS rule oracle (cross-checked against packaging.tags with stubbed probes)",
         "The whole platform grid of the quantifier is enumerated in both tiers.", "§4 C09"),
 "C10": ("online cache-hit monitor (hit value vs __wrapped__ recomputation) + offline functional-consistency checker over recorded histories, permutations, cleared caches and fresh interpreters",
         "Histories over small alphabets with equal-but-differently-built keys; every position compared with its cold result.", "§3.2, §4 C10"),
 "C11": ("post-conditions on MarkerExpression._get_specifier / from_specifier / _normalize_python_version_specifier vs evaluate() on an interpreter grid",
         "Exhaustive operator x operand-shape stratum + all bridge calls made by the merge machinery during marker workloads.", "§4 C11"),
 "C12": ("post-conditions on only/exclude/without_extras of all marker classes: variable walk + implication/equivalence on critical environments",
         "Every call incl. recursive ones; nested/factored shapes enumerated.", "§4 C12"),
 "C13": ("in-situ __eq__ spies (True => equal hashes, symmetric) + object-zoo checker (reflexive, symmetric, transitive, dict lookup, interchangeability by signature) incl. copy/pickle twins and twins built in another interpreter",
         "History of all __eq__ calls made by the library during workloads + sampled zoo pairs/triples.", "§3.2, §4 C13"),
 "C14": ("law monitors: 15 specifier law instances per triple decided by == of returned objects; 12 marker law instances decided by evaluation vectors",
         "Sampled triples over shared vocabularies.", "§4 C14"),
 "C15": ("structural normal-form predicate at the public boundary of every operation-tree node + diagnostic monitors on the simplify helpers",
         "Every boundary value decided exactly (structure); small-scope strata enumerated.", "§4 C15"),
 "C16": ("post-condition on every EnvSpec.compare call (reverse call and tag sets evaluated by the monitor) + relational monitors for requires_python monotonicity and platform nesting",
         "All ordered pairs of the spec grid in thorough, rotating sample in quick; subset decided exactly.", "§4 C16"),
 "C17": ("differential acceptance monitor at the return/raise of parse_version_specifier / from_specifierset vs packaging.SpecifierSet",
         "Grammar-generated valid strings and near-miss mutations.", "§4 C17"),
 "C18": ("post-condition on parse_wheel_tags vs packaging.utils.parse_wheel_filename, spy on wheel_compatibility->compatibility hand-over, platform name round-trip monitor",
         "PEP 427 grammar + extension/part-count mutations; documented platform names over an X_Y grid.", "§4 C18"),
 "C19": ("post-conditions on GenericSpecifier.__and__/__or__/__invert__ with exact truth tables over a complete candidate set; exhaustive operator x literal pool",
         "The (operator, literal) pair pool is enumerated completely; candidates are complete for the observed call.", "§3.4, §4 C19"),
}
checks = []
for pid in sorted(T):
    tech, text, ref = T[pid]
    checks.append({
        "property_id": pid,
        "quick_cmd": f"./check {pid} --tier quick",
        "thorough_cmd": f"./check {pid} --tier thorough",
        "evidence_file": f"evidence/{pid}.json",
        "replay_cmd_template": f"./check {pid} --replay {{path}}",
        "engine": "runtime-monitors",
        "level_claimed": {"category": "exploration", "text": text + " Verdict is three-valued: exit 0 held on what was observed, exit 1 violated with replay file, exit 2 inconclusive (deciding monitor not reached / watchdog / harness error).", "design_ref": ref},
        "level_note": "Trusted base: CPython 3.12, the installed packaging release (Version ordering; reference where the property names it), the check's own oracle code under /verif/vf. Holds only on the executions observed; the evidence file lists events per monitor, shape classes and inconclusive cases.",
        "technique": "runtime monitoring: " + tech,
    })
m = {
 "version": 1,
 "setup_cmd": "cd /verif && /venv/bin/python -m compileall -q vf >/dev/null && /venv/bin/python -c \"import sys; sys.path.insert(0, '/verif'); from vf import boot; boot.boot(); import vf.models.intervals\"",
 "hooks": {"guard": "DEP_LOGIC_VERIF", "enable": "none needed: every monitor is installed from the harness by rebinding attributes on the imported dep_logic classes/modules (./check sets DEP_LOGIC_VERIF=1 for documentation only); /repo carries no hook code",
           "baseline_off_cmd": "cd /repo && /venv/bin/python -m pytest -ra -q -p no:cacheprovider --timeout=900 --continue-on-collection-errors",
           "source_commits": [], "add_only": True},
 "engines": [{"name": "runtime-monitors", "path": "vf/", "serves_properties": sorted(T), "kind_free_text": "hand-written record-and-return post-condition wrappers on the real functions, reference-model oracles (exact interval model, string-atom truth tables, PEP rule oracles, packaging as differential reference), offline checkers over recorded histories, sharded seeded workloads"}],
 "checks": checks,
 "not_applicable": [],
 "notes": "Known findings: known_findings.json (mechanism predicates in vf/finding_predicates.py). Mutants used to validate the monitors: mutants/*.diff (tools/mutant.sh). Seeded changes from independent sub-agents: seeded/.",
}
json.dump(m, open(os.path.join(HERE, "MANIFEST.json"), "w"), indent=1)
print("wrote MANIFEST.json with", len(checks), "checks")
