"""Run context, sharding, verdicts and evidence."""
from __future__ import annotations

import hashlib
import json
import os
import random
import signal
import subprocess
import sys
import time
from collections import Counter
from typing import Any

from . import monitor
from .boot import VERIF, WORK
from .monitor import CaseTimeout, STATE

MAX_VIOL_KEPT = 80


def h64(*parts: Any) -> str:
    return hashlib.blake2b(repr(parts).encode(), digest_size=8).hexdigest()


class Ctx:
    """Per-process run context (one shard)."""

    def __init__(self, prop: str, tier: str, seed: int, shard: int = 0, nshards: int = 1):
        self.prop = prop
        self.tier = tier
        self.seed = seed
        self.shard = shard
        self.nshards = nshards
        self.rnd = random.Random(f"{prop}:{seed}:{shard}")
        self.evaluations = 0
        self.cases = 0
        self.distinct: set[str] = set()
        self.samples: list[Any] = []
        self.shapes: Counter = Counter()
        self.violations: list[dict] = []
        self.viol_count = 0
        self.viol_groups: Counter = Counter()
        self.known_hits: Counter = Counter()
        self.known_witness: dict[str, str] = {}
        self.inconclusive: Counter = Counter()
        self.timeouts = 0
        self.extra: dict[str, Any] = {}
        self.current_case: Any = None
        self.t0 = time.time()
        self.classifier = None  # set by main: fn(violation dict) -> finding id | None
        self.replaying = False

    # ---- bookkeeping used by checks and monitors -------------------------------------------
    def nontrivial(self, *key: Any) -> None:
        self.distinct.add(h64(*key))

    def sample(self, s: Any, cap: int = 6) -> None:
        if len(self.samples) < cap:
            self.samples.append(s)

    def shape(self, name: str, n: int = 1) -> None:
        self.shapes[name] += n

    def violation(self, prop: str, mon: str, what: str, detail: dict, case: Any = None, live: dict | None = None) -> None:
        v = {"property": prop, "monitor": mon, "what": what, "detail": detail,
             "case": case if case is not None else self.current_case,
             "seed": self.seed, "shard": self.shard,
             "hashseed": os.environ.get("PYTHONHASHSEED", ""), "optimize": sys.flags.optimize}
        fid = None
        if self.classifier is not None:
            with monitor.oracle():
                try:
                    v["_live"] = live or {}
                    fid = self.classifier(v)
                except CaseTimeout:
                    raise
                except Exception as e:  # a broken predicate must not hide a violation
                    v["classifier_error"] = repr(e)
                    fid = None
                finally:
                    v.pop("_live", None)
        if fid is not None:
            self.known_hits[fid] += 1
            v["finding"] = fid
            return
        self.viol_count += 1
        gkey = (mon, what, str(detail.get("group", detail.get("value_type", ""))))
        self.viol_groups[gkey] += 1
        if self.viol_groups[gkey] <= 4 and len(self.violations) < MAX_VIOL_KEPT:
            self.violations.append(v)

    # ---- watchdog ---------------------------------------------------------------------------
    def guarded(self, seconds: float, fn, *args, **kwargs):
        """Run fn under a SIGALRM watchdog. Returns (ok, value). A fired watchdog is inconclusive."""

        def on_alarm(signum, frame):
            raise CaseTimeout()

        old = signal.signal(signal.SIGALRM, on_alarm)
        signal.setitimer(signal.ITIMER_REAL, seconds)
        try:
            return True, fn(*args, **kwargs)
        except CaseTimeout:
            self.timeouts += 1
            self.inconclusive["watchdog@" + str(getattr(self, "stratum", "-"))] += 1
            STATE.depth = 0
            STATE.nest = 0
            return False, None
        except Exception as e:  # harness bug or an exception the check did not anticipate: inconclusive
            import traceback

            STATE.depth = 0
            STATE.nest = 0
            self.inconclusive["harness-exception"] += 1
            self.extra.setdefault("harness_exceptions", [])
            if len(self.extra["harness_exceptions"]) < 3:
                self.extra["harness_exceptions"].append(
                    {"case": self.current_case, "traceback": traceback.format_exc(limit=8)[-1500:]})
            return False, None
        finally:
            signal.setitimer(signal.ITIMER_REAL, 0)
            signal.signal(signal.SIGALRM, old)

    def elapsed(self) -> float:
        return time.time() - self.t0

    def dump(self) -> dict:
        return {
            "evaluations": self.evaluations, "cases": self.cases, "distinct": sorted(self.distinct),
            "samples": self.samples, "shapes": dict(self.shapes), "violations": self.violations,
            "viol_count": self.viol_count, "known_hits": dict(self.known_hits),
            "known_witness": self.known_witness, "inconclusive": dict(self.inconclusive),
            "timeouts": self.timeouts, "extra": self.extra,
            "monitor_counts": dict(STATE.counts), "monitor_errors": dict(STATE.errors),
            "monitor_first_errors": monitor.first_errors(), "wall_s": self.elapsed(),
            "hashseed": os.environ.get("PYTHONHASHSEED", ""), "optimize": sys.flags.optimize,
        }


# ---------------------------------------------------------------------------------------------
# parent side: launch shards, merge, verdict
# ---------------------------------------------------------------------------------------------

def _merge_extra(dst: dict, src: dict) -> None:
    for k, v in src.items():
        if isinstance(v, (int, float)) and not isinstance(v, bool):
            dst[k] = dst.get(k, 0) + v
        elif isinstance(v, dict):
            _merge_extra(dst.setdefault(k, {}), v)
        elif isinstance(v, list):
            cur = dst.setdefault(k, [])
            for x in v:
                if x not in cur and len(cur) < 60:
                    cur.append(x)
        else:
            dst.setdefault(k, v)


def run_parent(prop: str, tier: str, seed: int, mod) -> int:
    t0 = time.time()
    nshards = mod.SHARDS[tier] if hasattr(mod, "SHARDS") else (4 if tier == "quick" else 16)
    shard_timeout = getattr(mod, "SHARD_TIMEOUT", {"quick": 400, "thorough": 2700})[tier]
    os.makedirs(WORK, exist_ok=True)
    import glob

    for old in glob.glob(os.path.join(VERIF, "replays", f"{prop}-*.json")):
        os.unlink(old)
    procs = []
    for i in range(nshards):
        out = os.path.join(WORK, f"{prop}.{tier}.{seed}.{i}.{os.getpid()}.json")
        env = dict(os.environ)
        # set iteration order is a hidden input of union_simplify / intersect_simplify: vary it per shard
        env["PYTHONHASHSEED"] = str((seed + i) % 16)
        env["PYTHONDONTWRITEBYTECODE"] = "1"
        # the last shard runs the code under test with `python -O` (assert statements stripped): the properties do not
        # depend on how the interpreter was started
        opt = ["-O"] if (nshards > 1 and i == nshards - 1) else []
        cmd = [sys.executable, *opt, "-m", "vf.main", prop, "--tier", tier, "--seed", str(seed),
               "--shard", str(i), "--nshards", str(nshards), "--shard-out", out]
        procs.append((i, out, subprocess.Popen(cmd, cwd=VERIF, env=env, stdout=subprocess.PIPE,
                                               stderr=subprocess.PIPE, text=True)))
    merged = {"evaluations": 0, "cases": 0, "distinct": set(), "samples": [], "shapes": Counter(),
              "violations": [], "viol_count": 0, "known_hits": Counter(), "known_witness": {},
              "inconclusive": Counter(), "timeouts": 0, "extra": {}, "monitor_counts": Counter(),
              "monitor_errors": Counter(), "monitor_first_errors": {}, "hashseeds": set()}
    shard_fail = []
    for i, out, p in procs:
        try:
            so, se = p.communicate(timeout=max(5, shard_timeout - (time.time() - t0)))
        except subprocess.TimeoutExpired:
            p.kill()
            so, se = p.communicate()
            shard_fail.append(f"shard {i}: wall-clock watchdog ({shard_timeout}s)")
            continue
        if p.returncode != 0 or not os.path.exists(out):
            shard_fail.append(f"shard {i}: exit {p.returncode}: {(se or so)[-800:]}")
            continue
        with open(out) as f:
            d = json.load(f)
        os.unlink(out)
        merged["evaluations"] += d["evaluations"]
        merged["cases"] += d["cases"]
        merged["distinct"].update(d["distinct"])
        for s in d["samples"]:
            if len(merged["samples"]) < 8:
                merged["samples"].append(s)
        merged["shapes"].update(d["shapes"])
        merged["violations"].extend(d["violations"])
        merged["viol_count"] += d["viol_count"]
        merged["known_hits"].update(d["known_hits"])
        merged["known_witness"].update(d["known_witness"])
        merged["inconclusive"].update(d["inconclusive"])
        merged["timeouts"] += d["timeouts"]
        _merge_extra(merged["extra"], d["extra"])
        merged["monitor_counts"].update(d["monitor_counts"])
        merged["monitor_errors"].update(d["monitor_errors"])
        for k, v in d["monitor_first_errors"].items():
            merged["monitor_first_errors"].setdefault(k, v)
        merged["hashseeds"].add(d["hashseed"])
        merged.setdefault("optimize_levels", set()).add(int(d.get("optimize", 0)))
        for spec, v in d.get("anchor_lines", {}).items():
            cur = merged.setdefault("anchor_lines", {}).setdefault(spec, {"hit": set(), "all": set()})
            if isinstance(v, dict):
                cur["hit"].update(v["hit"])
                cur["all"].update(v["hit"])
                cur["all"].update(v["missed"])

    # ---- verdict --------------------------------------------------------------------------------
    reasons = list(shard_fail)
    min_events = getattr(mod, "MIN_EVENTS", {})
    for mon_name, need in min_events.items():
        need_n = need[tier] if isinstance(need, dict) else need
        if merged["monitor_counts"].get(mon_name, 0) < need_n:
            reasons.append(f"deciding monitor {mon_name} saw {merged['monitor_counts'].get(mon_name, 0)} < {need_n} events")
    for shape, need in getattr(mod, "MIN_SHAPES", {}).items():
        need_n = need[tier] if isinstance(need, dict) else need
        if merged["shapes"].get(shape, 0) < need_n:
            reasons.append(f"shape class {shape} observed {merged['shapes'].get(shape, 0)} < {need_n} times")
    if merged["monitor_errors"]:
        reasons.append(f"monitor errors (harness): {dict(merged['monitor_errors'])}: "
                       + " | ".join(v.strip().splitlines()[-1] for v in merged["monitor_first_errors"].values()))
    if merged["cases"] and merged["timeouts"] > 0.10 * merged["cases"]:
        reasons.append(f"{merged['timeouts']} of {merged['cases']} cases hit the watchdog")
    if merged["inconclusive"].get("harness-exception"):
        reasons.append(f"{merged['inconclusive']['harness-exception']} cases raised inside the harness: "
                       + str(merged["extra"].get("harness_exceptions", [{}])[0].get("traceback", ""))[-300:])
    if len(merged["distinct"]) < 2:
        reasons.append("fewer than 2 distinct non-trivial cases observed")

    # known findings: print one line per listed finding whose pinned witness still violates
    for fid, what in sorted(merged["known_witness"].items()):
        print(f"KNOWN-FINDING: property={prop} {fid} {what}")

    os.makedirs(os.path.join(VERIF, "replays"), exist_ok=True)
    first_replay = None
    seen = set()
    for v in merged["violations"]:
        key = h64(v["monitor"], v["what"], v["detail"])
        if key in seen:
            continue
        seen.add(key)
        path = os.path.join("replays", f"{prop}-{key}.json")
        with open(os.path.join(VERIF, path), "w") as f:
            json.dump(v, f, indent=1, sort_keys=True, default=str)
        if first_replay is None:
            first_replay = path
            print(f"VIOLATION property={prop} replay={path}")
            print(f"  monitor={v['monitor']} what={v['what']}")
            print("  detail=" + json.dumps(v["detail"], default=str)[:1500])
        elif len(seen) <= 12:
            print(f"  also: replay={path} monitor={v['monitor']} what={v['what']}")

    wall = time.time() - t0
    level = getattr(mod, "LEVEL", "exploration")
    cov = {
        "evaluations": merged["evaluations"],
        "distinct_nontrivial": len(merged["distinct"]),
        "rule": mod.RULE,
        "samples": merged["samples"],
        "cases": merged["cases"],
        "events_per_monitor": dict(sorted(merged["monitor_counts"].items())),
        "shape_classes": dict(sorted(merged["shapes"].items())),
        "inconclusive_cases": {"watchdog": merged["timeouts"], **dict(merged["inconclusive"])},
        "known_finding_hits": dict(merged["known_hits"]),
        "known_findings_reproduced": merged["known_witness"],
        "hash_seeds": sorted(merged["hashseeds"]),
        "interpreter_optimize_levels": sorted(merged.get("optimize_levels", {0})),
        "shards": nshards,
        "verdict": "violated" if merged["viol_count"] else ("inconclusive" if reasons else "held-on-observed"),
        "inconclusive_reasons": reasons,
    }
    if merged.get("anchor_lines"):
        cov["anchor_line_coverage"] = {
            spec.split(":")[1]: {"lines_hit": len(v["hit"]), "lines_present": len(v["all"]),
                                 "lines_never_executed": sorted(v["all"] - v["hit"])}
            for spec, v in sorted(merged["anchor_lines"].items())}
    if getattr(mod, "EXHAUSTIVE_NOTE", None):
        cov["exhaustive_note"] = mod.EXHAUSTIVE_NOTE
    cov.update(merged["extra"])
    evidence = {
        "property_id": prop, "tier": tier, "seed": seed, "level": level, "coverage": cov,
        "assumptions": list(getattr(mod, "ASSUMPTIONS", [])), "wall_s": round(wall, 2),
        "violations": merged["viol_count"],
    }
    os.makedirs(os.path.join(VERIF, "evidence"), exist_ok=True)
    with open(os.path.join(VERIF, "evidence", f"{prop}.json"), "w") as f:
        json.dump(evidence, f, indent=1, sort_keys=True, default=str)
        f.write("\n")

    summary = (f"{prop} tier={tier} seed={seed} cases={merged['cases']} evaluations={merged['evaluations']} "
               f"distinct_nontrivial={len(merged['distinct'])} violations={merged['viol_count']} "
               f"known_hits={dict(merged['known_hits'])} timeouts={merged['timeouts']} wall={wall:.1f}s")
    print(summary)
    if merged["viol_count"]:
        return 1
    if reasons:
        for r in reasons:
            print(f"INCONCLUSIVE property={prop} reason={r}")
        return 2
    return 0
