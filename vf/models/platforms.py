"""Independent rule oracle for platform tags (C09), written from PEP 600 / 656 / 513 / 571 / 599
and the macOS rules of the statement.  Returns the expected *list* (newest first) where the
statement fixes the order (manylinux, macOS) and a set otherwise.
"""
from __future__ import annotations

MANYLINUX_FLOOR = {"x86_64": 5, "x86": 5, "aarch64": 17, "armv7l": 17, "ppc64le": 17, "ppc64": 17, "s390x": 17,
                   "riscv64": 17}
LEGACY = {5: "manylinux1", 12: "manylinux2010", 17: "manylinux2014"}


def manylinux(minor: int, arch: str) -> list[str]:
    out = []
    floor = MANYLINUX_FLOOR[arch]
    for k in range(minor, floor - 1, -1):
        out.append(f"manylinux_2_{k}_{arch}")
        if k in LEGACY:
            out.append(f"{LEGACY[k]}_{arch}")
    out.append(f"linux_{arch}")
    return out


def musllinux(minor: int, arch: str) -> set[str]:
    return {f"musllinux_1_{k}_{arch}" for k in range(1, minor + 1)} | {f"linux_{arch}"}


def _mac_formats(arch: str, version: tuple[int, int]) -> list[str]:
    # formats claimed by the statement: <arch>, universal2 (back to 10.4), and on x86_64 intel/universal
    if arch == "x86_64":
        out = ["x86_64", "intel", "universal2", "universal"]
    else:
        out = ["arm64", "universal2"]
    return out


def macos(major: int, minor: int, arch: str) -> list[str]:
    """arch in {'x86_64', 'arm64'}; legacy fat* formats are not claimed (filtered by the caller)."""
    out = []
    if major >= 11:
        for m in range(major, 10, -1):
            for f in _mac_formats(arch, (m, 0)):
                out.append(f"macosx_{m}_0_{f}")
        if arch == "x86_64":
            for mi in range(16, 3, -1):
                for f in _mac_formats(arch, (10, mi)):
                    out.append(f"macosx_10_{mi}_{f}")
        else:
            for mi in range(16, 3, -1):
                out.append(f"macosx_10_{mi}_universal2")
    else:
        for mi in range(minor, 3, -1):
            for f in _mac_formats(arch, (10, mi)):
                out.append(f"macosx_10_{mi}_{f}")
    return out


def windows(arch: str) -> list[str]:
    return {"x86": ["win32"], "x86_64": ["win_amd64"], "aarch64": ["win_arm64"]}[arch]
