"""Independent rule oracle for wheel python/ABI compatibility (C08), written from the statement.

"Some Python version admitted by requires_python lies in window [lo, hi)" is decided exactly with
the interval model: the window ends are added to the critical points of requires_python.
"""
from __future__ import annotations

import re

from packaging.version import Version

from . import intervals as iv

_PT = re.compile(r"^(cp|pp|py|pt)(\d)(\d*)$")
_ABI = re.compile(r"^([a-z]+)(\d)(\d*)([a-z]*)$")


def admits_window(rp, lo: Version, hi: Version | None) -> bool:
    pts = iv.points(rp, extra=[lo] + ([hi] if hi is not None else []))
    for p in pts:
        if p >= lo and (hi is None or p < hi) and iv.mem(rp, p):
            return True
    return False


def oracle(rp, impl_short: str | None, gil_disabled: bool | None, python_tag: str, abi_tag: str):
    """(major, minor, abi-rank) or None, per the statement of C08. gil_disabled is None when the
    spec states no implementation."""
    m = _PT.match(python_tag)
    if not m:
        return "unspecified"
    impl, X, Y = m.group(1), int(m.group(2)), (int(m.group(3)) if m.group(3) else None)
    if impl_short is not None and impl not in (impl_short, "py"):
        return None
    if abi_tag == "abi3":
        if impl != "cp" or gil_disabled:
            return None
        if not admits_window(rp, Version(f"{X}.{Y or 0}"), None):
            return None
        return (X, Y or 0, 1)
    if abi_tag != "none":
        a = abi_tag.split("_", 1)[0].replace("pypy", "pp").replace("pyston", "pt")
        am = _ABI.match(a)
        if not am:
            return "unspecified"
        flags = am.group(4)
        if set(flags) - set("dmut"):
            return "unspecified"
        if am.group(1) + am.group(2) + am.group(3) != python_tag:
            return None
        ft = flags.endswith("t")
        if gil_disabled is not None and ft != gil_disabled:
            return None
    if impl == "py":
        if Y is None:
            ok = admits_window(rp, Version(f"{X}.0"), Version(f"{X + 1}.0"))
        else:
            ok = admits_window(rp, Version(f"{X}.{Y}.0"), Version(f"{X + 1}.0"))
    else:
        if Y is None:
            return "unspecified"
        ok = admits_window(rp, Version(f"{X}.{Y}.0"), Version(f"{X}.{Y + 1}.0"))
    if not ok:
        return None
    return (X, Y or 0, 0 if abi_tag == "none" else 2)
