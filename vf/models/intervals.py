"""Exact interval model over PEP 440 versions (DESIGN.md §3.3).

A specifier object is read *structurally* (min/max/include_*, ranges, class) as a finite union of
intervals in packaging's total order on Version.  For a set of specifiers with bound set B, every
set involved is constant on each open gap between consecutive bounds.  Probe points

    Pts = {0.dev0} U B U {succ(c) : c in B} U {c+local : c in B}

hit every bound, every non-empty gap (c+local lies immediately above c and below everything else
above c; succ(c) is the next *public* version) and both unbounded ends, so equality of membership
vectors on Pts is equivalent to equality of the sets over all versions: the verdict for one
observed call is exact, not sampled.
"""
from __future__ import annotations

from packaging.version import Version

from dep_logic.specifiers import (
    AnySpecifier,
    ArbitrarySpecifier,
    EmptySpecifier,
    GenericSpecifier,
    RangeSpecifier,
    UnionSpecifier,
)

MINV = Version("0.dev0")


class _Bottom:
    """Virtual probe below every version: the order read as unbounded below (used only by the
    predicate of the least-element finding, never by a deciding monitor)."""

    def __repr__(self):
        return "<below every version>"


BOTTOM = _Bottom()


def succ(v: Version) -> Version:
    """Immediate successor of a public version among public versions."""
    s = f"{v.epoch}!" + ".".join(map(str, v.release))
    if v.pre:
        s += f"{v.pre[0]}{v.pre[1]}"
    if v.is_devrelease:
        if v.post is not None:
            s += f".post{v.post}"
        return Version(s + f".dev{v.dev + 1}")
    p = -1 if v.post is None else v.post
    return Version(s + f".post{p + 1}.dev0")


def with_local(v: Version) -> Version:
    if v.local is not None:
        return v
    return Version(str(v) + "+0")


def readable(s) -> bool:
    return isinstance(s, (EmptySpecifier, AnySpecifier, RangeSpecifier, UnionSpecifier))


def ranges_of(s) -> list:
    if isinstance(s, RangeSpecifier):
        return [s]
    if isinstance(s, UnionSpecifier):
        out = []
        for r in s.ranges:  # tolerate malformed (nested) unions: the shape monitor reports them
            out.extend(ranges_of(r))
        return out
    return []


def mem_range(r, v) -> bool:
    lo, hi = r.min, r.max
    if v is BOTTOM:
        return lo is None
    if lo is not None:
        if v < lo or (v == lo and not r.include_min):
            return False
    if hi is not None:
        if v > hi or (v == hi and not r.include_max):
            return False
    return True


def mem(s, v: Version) -> bool:
    """Structural membership (interval semantics over the bounds)."""
    if isinstance(s, EmptySpecifier):
        return False
    if isinstance(s, AnySpecifier):
        return True
    if isinstance(s, RangeSpecifier):
        return mem_range(s, v)
    if isinstance(s, UnionSpecifier):
        for r in s.ranges:
            if (mem_range(r, v) if isinstance(r, RangeSpecifier) else mem(r, v)):
                return True
        return False
    raise TypeError(f"not an interval specifier: {type(s).__name__}")


def bounds(*specs) -> set:
    out = set()
    for s in specs:
        for r in ranges_of(s):
            if r.min is not None:
                out.add(r.min)
            if r.max is not None:
                out.add(r.max)
    return out


def points(*specs, extra=(), bottom=False) -> list:
    b = bounds(*specs) | set(extra)
    pts = {MINV}
    for c in b:
        pts.add(c)
        if c.local is None:
            pts.add(succ(c))
            pts.add(with_local(c))
    out = sorted(pts)
    if bottom:
        out.insert(0, BOTTOM)
    return out


def vector(s, pts) -> tuple:
    return tuple(mem(s, v) for v in pts)


def canon_defect(s) -> str | None:
    """None if `s` is in the canonical shape of C05, else a description of the defect."""
    if isinstance(s, (EmptySpecifier, AnySpecifier)):
        return None
    if isinstance(s, RangeSpecifier):
        if s.min is not None and s.max is not None:
            if s.min > s.max:
                return "range with min > max"
            if s.min == s.max and not (s.include_min and s.include_max):
                return "degenerate (empty) range"
        return None
    if isinstance(s, UnionSpecifier):
        rs = s.ranges
        if len(rs) < 2:
            return f"union of {len(rs)} range(s)"
        for r in rs:
            if not isinstance(r, RangeSpecifier):
                return f"union member of type {type(r).__name__}"
            if r.min is None and r.max is None:
                return "universal range inside a union"
            d = canon_defect(r)
            if d:
                return d + " inside a union"
        for a, b in zip(rs, rs[1:]):
            if a.max is None or b.min is None:
                return "unbounded end between union members"
            if a.max > b.min:
                return "union members overlap or are not ascending"
            if a.max == b.min and (a.include_max or b.include_min):
                return "union members touch (should have been merged)"
        return None
    if isinstance(s, (ArbitrarySpecifier, GenericSpecifier)):
        return None
    return f"unexpected result type {type(s).__name__}"


def describe(s) -> str:
    """Structural description independent of str() (which has its own shortcuts)."""
    if isinstance(s, EmptySpecifier):
        return "Empty"
    if isinstance(s, AnySpecifier):
        return "Any"
    if isinstance(s, RangeSpecifier):
        lo = "(-inf" if s.min is None else ("[" if s.include_min else "(") + str(s.min)
        hi = "+inf)" if s.max is None else str(s.max) + ("]" if s.include_max else ")")
        return f"{lo},{hi}"
    if isinstance(s, UnionSpecifier):
        return "U{" + " ".join(describe(r) for r in s.ranges) + "}"
    return f"{type(s).__name__}<{s}>"


def relation(a, b) -> str:
    """Relation class of an operand pair (shape counter for the evidence)."""
    def k(s):
        if isinstance(s, EmptySpecifier):
            return "empty"
        if isinstance(s, AnySpecifier) or (isinstance(s, RangeSpecifier) and s.min is None and s.max is None):
            return "any"
        if isinstance(s, UnionSpecifier):
            return "union"
        return "range"
    ka, kb = k(a), k(b)
    if ka != "range" or kb != "range":
        return f"{ka}x{kb}"
    pts = points(a, b)
    va, vb = vector(a, pts), vector(b, pts)
    both = [x and y for x, y in zip(va, vb)]
    if va == vb:
        return "range-equal"
    if any(both):
        if all(y for x, y in zip(va, vb) if x) or all(x for x, y in zip(va, vb) if y):
            return "range-nested"
        return "range-overlap"
    shared = bounds(a) & bounds(b)
    if shared:
        # same bound, one inclusive: adjacent (mergeable); both exclusive: touching with a hole
        for c in shared:
            ia = (a.max == c and a.include_max) or (a.min == c and a.include_min)
            ib = (b.max == c and b.include_max) or (b.min == c and b.include_min)
            if ia or ib:
                return "range-adjacent"
        return "range-touching-exclusive"
    return "range-disjoint"
