"""Locate the code under test and import it.

The code under test is always the *working tree* of /repo (or of $VERIF_REPO when the mutant
runner points the same checks at a scratch copy).  /repo/src is put first on sys.path so that it
shadows the editable install; the assertion below makes a silent fallback to some other copy
impossible.  dep-logic is pure Python, so "rebuild" means "import in a fresh process".
"""
from __future__ import annotations

import os
import sys

VERIF = os.path.dirname(os.path.dirname(os.path.abspath(__file__)))
REPO = os.environ.get("VERIF_REPO", "/repo")
WORK = os.path.join(VERIF, ".work")


def boot() -> str:
    src = os.path.realpath(os.path.join(REPO, "src"))
    if sys.path[0] != src:
        sys.path.insert(0, src)
    if "dep_logic" in sys.modules:
        raise SystemExit("INCONCLUSIVE reason=dep_logic was imported before boot()")
    import dep_logic

    where = os.path.realpath(dep_logic.__file__)
    if not where.startswith(src + os.sep):
        raise SystemExit(f"INCONCLUSIVE reason=dep_logic imported from {where}, expected under {src}")
    return src
