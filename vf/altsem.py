"""Alternative, documented semantics used ONLY by known-finding predicates (never by a deciding
monitor): a violation is attributed to a listed finding iff it disappears under the finding's own
reading of the atoms.

modes
  "interval": version atoms (python_version, python_full_version, platform_release with comparison
              / ~= / wildcard operators) are decided by interval membership of the environment
              value in the atom's specifier view, i.e. without PEP 440's pre/post/dev exclusion
              rules (mechanism of F12).
  "list":     `python_version in / not in "a, b"` is decided as membership in the version list
              instead of PEP 508's substring test (mechanism of F5).
"""
from __future__ import annotations

from packaging.version import InvalidVersion, Version

from .models import intervals as iv

VERSION_VARS = ("python_version", "python_full_version", "platform_release")


def atom_eval(atom, env: dict, mode: str) -> bool:
    from dep_logic.markers.single import MarkerExpression

    if isinstance(atom, MarkerExpression) and atom.name in VERSION_VARS:
        if mode == "interval" and atom.op not in ("in", "not in"):
            try:
                if atom.name == "python_version" and "python_full_version" in env:
                    # the library's model of interpreters: a python_version atom is an interval of
                    # python_full_version (what _merge_python_version_single_markers works with)
                    from dep_logic.markers.single import _normalize_python_version_specifier

                    v = Version(str(env["python_full_version"]))
                    spec = _normalize_python_version_specifier(atom)
                else:
                    v = Version(str(env[atom.name]))
                    spec = atom.specifier
                if iv.readable(spec):
                    return iv.mem(spec, v)
            except (InvalidVersion, KeyError):
                pass
        if mode == "list" and atom.name == "python_version" and atom.op in ("in", "not in") and not atom.reversed:
            try:
                v = Version(str(env[atom.name]))
                items = [Version(p.strip()) for p in atom.value.split(",")]
                inside = any(v == i for i in items)
                return inside if atom.op == "in" else not inside
            except (InvalidVersion, KeyError):
                pass
    return bool(atom.evaluate(dict(env)))


def obj_eval(m, env: dict, mode: str) -> bool:
    from dep_logic.markers import AnyMarker, EmptyMarker, MarkerUnion, MultiMarker

    if isinstance(m, AnyMarker):
        return True
    if isinstance(m, EmptyMarker):
        return False
    if isinstance(m, MultiMarker):
        return all(obj_eval(c, env, mode) for c in m.markers)
    if isinstance(m, MarkerUnion):
        return any(obj_eval(c, env, mode) for c in m.markers)
    return atom_eval(m, env, mode)


def text_eval(text: str, env: dict, mode: str) -> bool:
    """Truth value of the *unmerged* text: Boolean structure from packaging's parser, atoms under `mode`."""
    from packaging.markers import Marker

    from dep_logic.markers import _build_markers

    def go(markers) -> bool:
        groups = [[]]
        for item in markers:
            if isinstance(item, list):
                groups[-1].append(go(item))
            elif isinstance(item, tuple):
                groups[-1].append(atom_eval(_build_markers(item), env, mode))
            elif item == "or":
                groups.append([])
        return any(all(g) for g in groups)

    return go(Marker(text)._markers)


def has_prerelease_env(env: dict) -> bool:
    for k in VERSION_VARS:
        if k in env:
            try:
                v = Version(str(env[k]))
            except InvalidVersion:
                continue
            if v.pre is not None or v.dev is not None or v.post is not None:
                return True
    return False


def pyin_atoms(m) -> list:
    from .workloads.markers import walk_atoms

    return [a for a in walk_atoms(m) if getattr(a, "op", None) in ("in", "not in") and a.name == "python_version"]


def env_is_proper_substring_of_list(env: dict, atoms) -> bool:
    pv = str(env.get("python_version", ""))
    for a in atoms:
        items = [p.strip() for p in a.value.split(",")]
        if pv in a.value and pv not in items:
            return True
    return False


# ---- F4: literal-on-the-left in / not in -----------------------------------------------------------

FRESH = ["platform_version", "platform_machine", "implementation_name", "platform_system", "platform_python_implementation",
         "os_name", "sys_platform"]


def rename_reversed_in(texts: list[str], env: dict):
    """Rename the variable of every `"lit" in/not in var` atom (string variables only) to a fresh
    string variable carrying the same value: the atom is thereby kept out of every same-variable
    merge and out of every equality-keyed cache collision.  Returns (new_texts, new_env) or None."""
    import re

    pat = re.compile(r'("[^"]*"\s+(?:not in|in)\s+)([a-z_.]+)')
    used = set()
    for t in texts:
        for m in pat.finditer(t):
            used.add(m.group(2))
    used = {u for u in used if u.replace(".", "_") not in VERSION_VARS and u not in ("extras", "dependency_groups", "extra")}
    if not used:
        return None
    alltext = " ".join(texts)
    fresh = [f for f in FRESH if f not in alltext]
    if len(fresh) < len(used):
        return None
    mapping = dict(zip(sorted(used), fresh))
    new_env = dict(env)
    for old, new in mapping.items():
        new_env[new] = env.get(old.replace(".", "_"), "")
    out = [pat.sub(lambda m: m.group(1) + mapping.get(m.group(2), m.group(2)), t) for t in texts]
    return out, new_env


def reversed_in_has_partner(texts: list[str]) -> bool:
    """F4 needs a partner: some literal-on-the-left in/not in atom's variable occurs in ANOTHER atom
    of the same case (any orientation).  A lone reversed atom is handled correctly by the library,
    so a mismatch on a case without such a partner is not F4."""
    import re

    rev = re.compile(r'"[^"]*"\s+(?:not in|in)\s+([a-z_.]+)')
    anyvar = re.compile(r'\b(os[._]name|sys[._]platform|platform[._]machine|platform_system|implementation_name|'
                        r'platform[._]python_implementation|platform[._]version)\b')
    alltext = " ".join(texts)
    counts = {}
    for m in anyvar.finditer(alltext):
        k = m.group(1).replace(".", "_")
        counts[k] = counts.get(k, 0) + 1
    for m in rev.finditer(alltext):
        k = m.group(1).replace(".", "_")
        if counts.get(k, 0) >= 2:
            return True
    return False


def has_prerelease_literal(markers) -> bool:
    """Some version atom carries a pre / dev / post release *literal* (the mirror image of a
    pre-release environment: PEP 440's exclusion rules then apply at evaluation, not in the algebra)."""
    from .workloads.markers import walk_atoms

    for m in markers:
        for a in walk_atoms(m):
            if getattr(a, "name", None) in VERSION_VARS and hasattr(a, "value"):
                for piece in str(a.value).replace("*", "0").split(","):
                    try:
                        v = Version(piece.strip())
                    except InvalidVersion:
                        continue
                    if v.pre is not None or v.dev is not None or v.post is not None:
                        return True
    return False
