"""Monitors for the marker layer (C02, C07, C12, C14-markers, C15) and the shared marker driver."""
from __future__ import annotations

import itertools

from . import monitor
from .monitor import CaseTimeout, bump, install, oracle, violation
from .workloads import markers as MW


def classes():
    import dep_logic.markers as M
    import dep_logic.markers.single as single

    return M, single


def is_marker(x) -> bool:
    from dep_logic.markers.base import BaseMarker

    return isinstance(x, BaseMarker)


def ev(m, env) -> bool:
    return bool(m.evaluate(dict(env)))


def mtext(m) -> str:
    try:
        return str(m)
    except Exception as e:  # noqa: BLE001
        return f"<str raised {type(e).__name__}>"


def clear_caches():
    """Empty the four process-wide lru_caches of the marker layer (history dependence is C10's
    subject; strata that contain literal-on-the-left in/not in atoms are isolated from the others)."""
    import dep_logic.markers as M
    import dep_logic.markers.single as single
    import dep_logic.utils as U

    for fn in (M.parse_marker, single._merge_single_markers, U.cnf, U.dnf):
        if hasattr(fn, "cache_clear"):
            fn.cache_clear()
        else:  # memoised some other way: cannot be emptied from outside (C10 then relies on fresh interpreters)
            UNCLEARABLE.add(getattr(fn, "__name__", repr(fn)))


UNCLEARABLE: set = set()


def prepare(ctx):
    ctx.stratum = "main"
    ctx.env_budget = 0
    ctx.env_cap_top = 200 if ctx.tier == "quick" else 600
    ctx.env_cap_inner = 24 if ctx.tier == "quick" else 40


def stratum_flags(ctx):
    s = getattr(ctx, "stratum", "main")
    return {"prerelease": s == "prerelease", "str_extra_only": False}


def equiv_check(ctx, prop, mon, what, operands, result, combine, *, cap, detail=None, envs=None):
    """result.evaluate(env) must equal combine([op.evaluate(env) for op in operands]) on the critical
    environments derived from the operands and the result. Returns number of environments decided."""
    if envs is None:
        envs = MW.environments(ctx.rnd, list(operands) + [result], cap, **stratum_flags(ctx))
    n = 0
    names = set()
    for o in list(operands) + [result]:
        names |= MW.names_of(o)
    for env in envs:
        try:
            vals = [ev(o, env) for o in operands]
        except CaseTimeout:
            raise
        except Exception:  # noqa: BLE001  operand not evaluable here: not this monitor's business
            ctx.inconclusive["operand-evaluation-raised"] += 1
            continue
        exp = combine(vals)
        try:
            got = ev(result, env)
        except CaseTimeout:
            raise
        except Exception as e:  # noqa: BLE001
            violation(prop, mon, f"{what}: result.evaluate raised {type(e).__name__}",
                      {"operands": [mtext(o) for o in operands], "result": mtext(result),
                       "env": MW.env_brief(env, names), "stratum": ctx.stratum, **(detail or {})},
                      live={"operands": list(operands), "result": result, "env": env})
            return n
        n += 1
        if got != exp:
            violation(prop, mon, what,
                      {"operands": [mtext(o) for o in operands], "result": mtext(result),
                       "result_type": type(result).__name__, "env": MW.env_brief(env, names),
                       "operand_values": vals, "expected": exp, "got": got, "stratum": ctx.stratum,
                       **(detail or {})},
                      live={"operands": list(operands), "result": result, "env": env, "combine": combine})
            return n
    ctx.evaluations += n
    return n


# ------------------------------------------------------------------------------------------------
# C02: semantic post-conditions on every combinator
# ------------------------------------------------------------------------------------------------

AND = all
OR = any


def install_c02(ctx, prop="C02"):
    M, single = classes()
    import dep_logic.markers.multi as multi
    import dep_logic.markers.union as union
    import dep_logic.utils as U

    def cap():
        # inner events are sampled once the per-case budget is used, so cost stays linear
        if ctx.env_budget <= 0:
            if ctx.rnd.random() > 0.15:
                return 0
            return 8
        c = ctx.env_cap_inner
        ctx.env_budget -= c
        return c

    def bin_post(name, comb):
        def post(args, kwargs, r):
            a, b = args[0], args[1]
            if not (is_marker(a) and is_marker(b) and is_marker(r)):
                return
            c = cap()
            if c:
                equiv_check(ctx, prop, name, f"{name}: result does not evaluate as the {'conjunction' if comb is AND else 'disjunction'} of its operands",
                            [a, b], r, comb, cap=c)
        return post

    def var_post(name, comb, skip_first=True):
        def post(args, kwargs, r):
            ops = list(args[1:] if skip_first else args)
            if not ops or not all(is_marker(o) for o in ops) or not is_marker(r):
                return
            c = cap()
            if c:
                equiv_check(ctx, prop, name, f"{name}: result is not equivalent to the {'conjunction' if comb is AND else 'disjunction'} of the arguments",
                            ops, r, comb, cap=c)
        return post

    def same_post(name):
        def post(args, kwargs, r):
            if not is_marker(r):
                return
            c = cap()
            if c:
                equiv_check(ctx, prop, name, f"{name}: result is not equivalent to its argument", [args[0]], r,
                            lambda v: v[0], cap=c)
        return post

    def opt_post(name, comb):
        def post(args, kwargs, r):
            if r is None:
                ctx.shape(f"path:{name}:none")
                return
            ctx.shape(f"path:{name}:simplified")
            c = cap()
            if c:
                equiv_check(ctx, prop, name, f"{name}: simplification changed the meaning", [args[0], args[1]], r, comb, cap=c)
        return post

    def merge_post(name):
        def post(args, kwargs, r):
            m1, m2, cls = args[0], args[1], args[2]
            comb = AND if cls is M.MultiMarker else OR
            if r is None:
                ctx.shape(f"path:{name}:none")
                return
            ctx.shape(f"path:{name}:{type(r).__name__}")
            c = cap()
            if c:
                equiv_check(ctx, prop, name, f"{name}: merged atom is not equivalent to the pair it replaces",
                            [m1, m2], r, comb, cap=c, detail={"merge": "and" if comb is AND else "or"})
        return post

    def replace_post(kind):
        def post(args, kwargs, r):
            self, values = args[0], list(args[1])
            if not is_marker(r) or self.name == "extra":
                return
            ctx.shape(f"path:{kind}.replace:{type(r).__name__}")
            for probe in values + ["§other"]:
                env = {self.name: probe}
                exp = (probe in values) if kind == "EqualityMarkerUnion" else (probe not in values)
                ctx.evaluations += 1
                if ev(r, env) != exp:
                    violation(prop, f"{kind}.replace", "replace() result does not denote the given value set",
                              {"name": self.name, "values": values, "result": mtext(r), "probe": probe, "stratum": ctx.stratum})
                    return
        return post

    E, EQ, NE = single.MarkerExpression, single.EqualityMarkerUnion, single.InequalityMultiMarker

    # operands must not be changed by a combinator call (aliasing of children tuples / value sets, flipped flags)
    def deep(m):
        if isinstance(m, E):
            return ("atom", m.name, m.op, m.value, m.reversed)
        if isinstance(m, (EQ, NE)):
            return (type(m).__name__, m.name, tuple(m.values))
        if isinstance(m, (M.MultiMarker, M.MarkerUnion)):
            return (type(m).__name__, tuple(deep(c) for c in m.markers))
        return (type(m).__name__,)

    def snap(args, kwargs):
        return tuple(deep(x) if is_marker(x) else None for x in args[:3])

    def unchanged(name):
        def post(args, kwargs, r, token):
            if token is not None and snap(args, kwargs) != token:
                violation(prop, f"{name} (operands)", "a combinator call changed one of its operands",
                          {"before": repr(token)[:400], "after": repr(snap(args, kwargs))[:400], "stratum": ctx.stratum,
                           "group": "mutation"})
        return post

    for cls in (E, EQ, NE, M.MultiMarker, M.MarkerUnion):
        n = cls.__name__
        al_and = () if cls is E else ("__rand__",)
        al_or = () if cls is E else ("__ror__",)
        install(cls, "__and__", unchanged(n + ".__and__"), pre=snap, mon=f"immutable.{n}.__and__", aliases=al_and)
        install(cls, "__or__", unchanged(n + ".__or__"), pre=snap, mon=f"immutable.{n}.__or__", aliases=al_or)
    install(E, "__and__", bin_post("MarkerExpression.__and__", AND))
    install(E, "__or__", bin_post("MarkerExpression.__or__", OR))
    for cls in (EQ, NE, M.MultiMarker, M.MarkerUnion, M.AnyMarker, M.EmptyMarker):
        n = cls.__name__
        install(cls, "__and__", bin_post(n + ".__and__", AND), aliases=("__rand__",))
        install(cls, "__or__", bin_post(n + ".__or__", OR), aliases=("__ror__",))
    install(EQ, "replace", replace_post("EqualityMarkerUnion"))
    install(NE, "replace", replace_post("InequalityMultiMarker"))
    install(M.MultiMarker, "of", var_post("MultiMarker.of", AND))
    install(M.MarkerUnion, "of", var_post("MarkerUnion.of", OR))
    install(M.MultiMarker, "union_simplify", opt_post("MultiMarker.union_simplify", OR))
    install(M.MarkerUnion, "intersect_simplify", opt_post("MarkerUnion.intersect_simplify", AND))
    install(U, "cnf", same_post("cnf"))
    install(U, "dnf", same_post("dnf"))
    install(U, "intersection", var_post("intersection", AND, skip_first=False),
            also=((multi, "intersection"), (union, "intersection")))
    install(U, "union", var_post("union", OR, skip_first=False), also=((multi, "union"), (union, "union")))
    install(single, "_merge_single_markers", merge_post("_merge_single_markers"))
    install(single, "_merge_python_version_single_markers", merge_post("_merge_python_version_single_markers"))


# ------------------------------------------------------------------------------------------------
# C15: normal form at the public boundary
# ------------------------------------------------------------------------------------------------

def nf_defect(m, top=True):
    M, single = classes()
    if isinstance(m, (M.AnyMarker, M.EmptyMarker)):
        return None if top else f"{type(m).__name__} as a child of a compound"
    if isinstance(m, (single.EqualityMarkerUnion, single.InequalityMultiMarker)):
        if len(m.values) < 2:
            return f"{type(m).__name__} with {len(m.values)} value(s)"
        return None
    if isinstance(m, single.SingleMarker):
        return None
    if isinstance(m, (M.MultiMarker, M.MarkerUnion)):
        if len(m.markers) < 2:
            return f"{type(m).__name__} with {len(m.markers)} child(ren)"
        seen = []
        for c in m.markers:
            if c in seen:
                return f"duplicate child in {type(m).__name__}"
            seen.append(c)
        for c in m.markers:
            if type(c) is type(m):
                return f"{type(m).__name__} nested directly inside {type(m).__name__}"
            d = nf_defect(c, False)
            if d:
                return d
        return None
    return f"unexpected marker type {type(m).__name__}"


def normal_form_check(ctx, prop, where, m, origin=None):
    bump("normal-form")
    ctx.evaluations += 1
    d = nf_defect(m)
    M, single = classes()
    if d is None:
        try:
            if not isinstance(m, M.EmptyMarker) and m.is_empty():
                d = "is_empty() is true on a non-EmptyMarker result"
            elif not isinstance(m, M.AnyMarker) and m.is_any():
                d = "is_any() is true on a non-AnyMarker result"
        except Exception as e:  # noqa: BLE001
            d = f"is_empty/is_any raised {type(e).__name__}"
    if d is not None:
        violation(prop, where, "result is not in normal form: " + d,
                  {"result": repr(m), "origin": origin, "defect": d, "stratum": getattr(ctx, "stratum", "main"),
                   "group": d.split(" with ")[0][:40], "simplify_diagnostics": dict(getattr(ctx, "diag", {}))},
                  live={"result": m, "diag": dict(getattr(ctx, "diag", {}))})
    return d


# ------------------------------------------------------------------------------------------------
# C07: text round-trip of markers
# ------------------------------------------------------------------------------------------------

def marker_roundtrip_check(ctx, prop, where, m, origin=None, cap=40):
    from packaging.markers import InvalidMarker as PkgInvalidMarker
    from packaging.markers import Marker as PkgMarker

    M, single = classes()
    bump(where)
    try:
        text = str(m)
    except Exception as e:  # noqa: BLE001
        violation(prop, where, f"str() raised {type(e).__name__}", {"marker": repr(type(m)), "origin": origin})
        return
    if isinstance(m, (M.AnyMarker, M.EmptyMarker)):
        exp = "" if isinstance(m, M.AnyMarker) else "<empty>"
        back = M.parse_marker(text)
        ctx.evaluations += 1
        if text != exp or type(back) is not type(m):
            violation(prop, where, "empty/universal marker does not render/parse back to itself",
                      {"text": text, "back": repr(back), "origin": origin})
        return
    if "<empty>" in text:
        violation(prop, where, "`<empty>` appears inside a larger marker", {"text": text, "origin": origin, "group": "empty-inside"},
                  live={"marker": m})
        return
    try:
        back = M.parse_marker(text)
    except CaseTimeout:
        raise
    except Exception as e:  # noqa: BLE001
        violation(prop, where, f"parse_marker(str(m)) raised {type(e).__name__}",
                  {"text": text, "error": str(e)[:200], "origin": origin, "group": "reparse"}, live={"marker": m})
        return
    try:
        PkgMarker(text)
    except PkgInvalidMarker as e:
        violation(prop, where, "str(m) is rejected by packaging.markers.Marker",
                  {"text": text, "error": str(e)[:200], "origin": origin, "group": "pkg-reject"}, live={"marker": m})
        return
    if "(" in text or isinstance(m, (single.EqualityMarkerUnion, single.InequalityMultiMarker)) or any(
            isinstance(a, (single.EqualityMarkerUnion, single.InequalityMultiMarker)) for a in MW.walk_atoms(m)):
        ctx.nontrivial("rt", text)
    equiv_check(ctx, prop, where, "re-parsed text evaluates differently from the marker", [m], back, lambda v: v[0],
                cap=cap, detail={"text": text, "reparsed": mtext(back), "origin": origin})


# ------------------------------------------------------------------------------------------------
# shared driver: marker trees evaluated through the monitored public API
# ------------------------------------------------------------------------------------------------

def eval_marker_tree(ctx, tree, on_node, *, prop, watchdog=5.0):
    """on_node(t, value, child_values) is called under oracle() for every node."""
    stack = []

    def hook(t, v):
        n = {"and": 2, "or": 2, "only": 1, "exclude": 1, "noextras": 1, "str": 1}.get(t[0], 0)
        if t[0] in ("mof", "uof"):
            n = len(t) - 1
        kids = stack[len(stack) - n:] if n else []
        if n:
            del stack[len(stack) - n:]
        stack.append(v)
        if on_node is not None:
            with oracle():
                on_node(t, v, kids)

    def go():
        try:
            if getattr(ctx, "boundary_only", False):
                # heavy cases: only the values handed back at the tree nodes are decided; the thousands of inner
                # calls run unobserved (their own post-conditions would dominate the cost)
                with oracle():
                    return MW.build(tree, hook)
            return MW.build(tree, hook)
        except CaseTimeout:
            raise
        except Exception as e:  # noqa: BLE001
            violation(prop, "tree-eval", f"public operation raised {type(e).__name__}",
                      {"tree": MW.tree_text(tree)[:500], "error": str(e)[:200], "stratum": ctx.stratum,
                       "group": type(e).__name__})
            return None

    ctx.env_budget = ctx.env_cap_top
    ok, root = ctx.guarded(max(watchdog, getattr(ctx, "watchdog_floor", 0) or 0), go)
    return root if ok else None


def gen_marker_tree(rnd, cfg, max_atoms, closure=None, ops=("and", "or"), unary_p=0.0):
    a, b = MW.gen_pair(rnd, cfg, max_atoms)
    ta, tb = ["m", a], ["m", b]
    if closure and rnd.random() < 0.3:
        c = rnd.choice(closure)
        if MW.tree_atoms(c) + MW.n_atoms(b) <= max_atoms:
            ta = c
    k = rnd.random()
    if k < 0.03:
        tb = [rnd.choice(["any", "empty"])]
    t = [rnd.choice(ops), ta, tb]
    if rnd.random() < 0.12:
        t = ["str", t]
    return t


# ------------------------------------------------------------------------------------------------
# C14 (marker part)
# ------------------------------------------------------------------------------------------------

def marker_laws(a, b, c):
    yield "commutative-and", lambda: a & b, lambda: b & a
    yield "commutative-or", lambda: a | b, lambda: b | a
    yield "associative-and", lambda: (a & b) & c, lambda: a & (b & c)
    yield "associative-or", lambda: (a | b) | c, lambda: a | (b | c)
    yield "idempotent-and", lambda: a & a, lambda: a
    yield "idempotent-or", lambda: a | a, lambda: a
    yield "absorption-and", lambda: a & (a | b), lambda: a
    yield "absorption-or", lambda: a | (a & b), lambda: a
    yield "distributive-and", lambda: a & (b | c), lambda: (a & b) | (a & c)
    yield "distributive-or", lambda: a | (b & c), lambda: (a | b) & (a | c)
    yield "identity-and", lambda: a & type_any()(), lambda: a
    yield "identity-or", lambda: a | type_empty()(), lambda: a


def type_any():
    return classes()[0].AnyMarker


def type_empty():
    return classes()[0].EmptyMarker


def _law_case(ctx, prop):
    M, single = classes()

    def per_case(texts, only=None):
        ms = [M.parse_marker(t) for t in texts]
        a, b, c = ms
        if len({str(x) for x in ms}) == 3 and not any(x.is_any() or x.is_empty() for x in ms):
            ctx.nontrivial("marker", *texts)
            if sum(1 for s in ctx.samples if isinstance(s, dict) and s.get("kind") == "marker-triple") < 3:
                ctx.samples.append({"kind": "marker-triple", "a": texts[0], "b": texts[1], "c": texts[2]})
        for name, lf, rf in marker_laws(a, b, c):
            if only is not None and name not in only:
                continue
            bump("marker-law")
            try:
                lhs, rhs = lf(), rf()
            except CaseTimeout:
                raise
            except Exception as e:  # noqa: BLE001
                violation(prop, "marker-law", f"law {name}: raised {type(e).__name__}",
                          {"a": texts[0], "b": texts[1], "c": texts[2], "error": str(e)[:160], "group": name})
                continue
            with oracle():
                envs = MW.environments(ctx.rnd, [a, b, c, lhs, rhs], 60 if ctx.tier == "quick" else 150)
                equiv_check(ctx, prop, "marker-law", f"law {name}: the two sides evaluate differently", [lhs], rhs,
                            lambda v: v[0], cap=0, envs=envs,
                            detail={"a": texts[0], "b": texts[1], "c": texts[2], "lhs": mtext(lhs), "rhs": mtext(rhs), "group": name})
    return per_case


def run_marker_laws(ctx, prop):
    prepare(ctx)
    rnd = ctx.rnd
    cfg = MW.Cfg()
    n = 250 if ctx.tier == "quick" else 4000
    per = _law_case(ctx, prop)
    t_end = ctx.elapsed() + (14 if ctx.tier == "quick" else 130)
    for i in range(n):
        if ctx.elapsed() > t_end:
            ctx.extra["marker_laws_stopped_by_time_budget_after"] = i
            break
        sv = rnd.sample(MW.STRVARS, rnd.randint(1, 2))
        sl = rnd.sample(MW.STRLIT, rnd.randint(2, 3))
        texts = [MW.text(rnd, cfg, rnd.choice([0, 0, 1]), sv, sl) for _ in range(3)]
        if sum(map(MW.n_atoms, texts)) > (6 if ctx.tier == "quick" else 7):
            continue
        ctx.cases += 1
        ctx.current_case = {"kind": "marker-triple", "texts": texts}
        ctx.guarded(8.0 if ctx.tier == "quick" else 20.0, per, texts)
    # structured triples beyond the size of the random ones: a conjunction / a group, its operand-order twin and a
    # flat union over 9-12 further atoms (more than ten distinct atoms in one `|`), under the laws that stay cheap
    from .checks._marker_common import _FLAT_NAMES

    cheap = {"commutative-or", "associative-or", "idempotent-or", "commutative-and", "identity-or"}
    t_end = ctx.elapsed() + (12 if ctx.tier == "quick" else 120)
    n_struct = 0
    for i in range(6 if ctx.tier == "quick" else 120):
        if ctx.elapsed() > t_end:
            break
        v = rnd.sample(_FLAT_NAMES, 3)
        k = rnd.choice([2, 3])
        atoms = [f'{x} == "g{j}"' for j, x in enumerate(v)][:k]
        join = " and " if i % 3 else " or "
        if join == " or ":
            atoms = [f'{v[0]} == "g{j}"' for j in range(k)]   # a group and its value-order twin
        g, g2 = join.join(atoms), join.join(reversed(atoms))
        rest = [n for n in _FLAT_NAMES if n not in v] + ["extra", "python_version"]
        flat = " or ".join([f'{n} == "f{j}"' if n != "python_version" else 'python_version >= "3.8"'
                            for j, n in enumerate(rest)] + [f'{v[1]} == "h{j}"' for j in range(rnd.choice([2, 4]))])
        for texts in ([g, g2, flat], [flat, g, g2], [g, flat, g2]):
            ctx.cases += 1
            n_struct += 1
            ctx.current_case = {"kind": "marker-triple", "texts": texts, "only": sorted(cheap)}
            ctx.guarded(20.0 if ctx.tier == "quick" else 60.0, per, texts, cheap)
    ctx.extra["structured_marker_triples"] = n_struct
    ctx.current_case = None


def replay_marker_law(ctx, prop, case):
    prepare(ctx)
    _law_case(ctx, prop)(case["texts"], set(case["only"]) if case.get("only") else None)
