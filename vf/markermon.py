def prepare(ctx):
    pass
def run_marker_laws(ctx, prop):
    pass
def replay_marker_law(ctx, prop, case):
    pass
