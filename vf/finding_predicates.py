"""Mechanism predicates of the known findings (DESIGN.md §3.9).

A predicate receives the violation record (monitor, what, detail, case, and the live objects the
monitor was looking at under "_live") and answers: is this violation explained by *that*
mechanism?  Each predicate re-derives the expected answer under the documented alternative
semantics, so an unrelated bug in the same neighbourhood is still reported.
"""
from __future__ import annotations

from .findings import predicate
from .models import intervals as iv


@predicate
def least_element_bound(v) -> bool:
    """F18: 0.dev0 is the least PEP 440 version, so `<0.dev0` admits nothing and `>=0.dev0`
    everything, but the library (pure interval reading, no least element) says neither.  Explained
    iff 0.dev0 occurs as a bound AND the disagreement vanishes when the order is read as unbounded
    below (virtual probe below every version)."""
    live = v.get("_live") or {}
    objs = [o for o in live.values() if iv.readable(o)]
    if not objs or iv.MINV not in iv.bounds(*objs):
        return False
    what = v["what"]
    if what.startswith("is_any() disagrees"):
        r = live["result"]
        return r.is_any() == all(iv.vector(r, iv.points(r, bottom=True)))
    if what.startswith("is_empty() disagrees"):
        r = live["result"]
        return r.is_empty() == (not any(iv.vector(r, iv.points(r, bottom=True))))
    if what.startswith("== does not coincide"):
        x, y = live["x"], live["y"]
        pts = iv.points(x, y, bottom=True)
        same = iv.vector(x, pts) == iv.vector(y, pts)
        return (x == y) == same and (y == x) == same
    if what.startswith("law "):
        lhs, rhs = live["lhs"], live["rhs"]
        pts = iv.points(lhs, rhs, bottom=True)
        same = iv.vector(lhs, pts) == iv.vector(rhs, pts)
        return (lhs == rhs) == same
    return False
