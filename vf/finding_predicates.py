"""Mechanism predicates of the known findings (DESIGN.md §3.9).

A predicate receives the violation record (monitor, what, detail, case, and the live objects the
monitor was looking at under "_live") and answers: is this violation explained by *that*
mechanism?  Each predicate re-derives the expected answer under the documented alternative
semantics, so an unrelated bug in the same neighbourhood is still reported.
"""
from __future__ import annotations

from .findings import predicate
from .models import intervals as iv


@predicate
def least_element_bound(v) -> bool:
    """F18: 0.dev0 is the least PEP 440 version, so `<0.dev0` admits nothing and `>=0.dev0`
    everything, but the library (pure interval reading, no least element) says neither.  Explained
    iff 0.dev0 occurs as a bound AND the disagreement vanishes when the order is read as unbounded
    below (virtual probe below every version)."""
    live = v.get("_live") or {}
    objs = [o for o in live.values() if iv.readable(o)]
    if isinstance(live.get("leafvals"), dict):
        objs += [o for o in live["leafvals"].values() if iv.readable(o)]
    if not objs or iv.MINV not in iv.bounds(*objs):
        return False
    what = v["what"]
    if "denote" in what:   # C05's denotation oracle: repeat it with the virtual probe below every version
        from .specmon import denotation

        pts = iv.points(*objs, bottom=True)
        if what.startswith("== between"):
            x, y = live["x"], live["y"]
            e1 = denotation(live["x_tree"], live["leafvals"], pts)
            e2 = denotation(live["y_tree"], live["leafvals"], pts)
            return e1 is not None and e2 is not None and (x == y) == (e1 == e2)
        r = live["result"]
        e = denotation(live["tree"], live["leafvals"], pts)
        if e is None:
            return False
        if what.startswith("is_empty()"):
            return bool(r.is_empty()) == (not any(e))
        return bool(r.is_any()) == all(e)
    if what.startswith("is_any() disagrees"):
        r = live["result"]
        return r.is_any() == all(iv.vector(r, iv.points(r, bottom=True)))
    if what.startswith("is_empty() disagrees"):
        r = live["result"]
        return r.is_empty() == (not any(iv.vector(r, iv.points(r, bottom=True))))
    if what.startswith("== does not coincide"):
        x, y = live["x"], live["y"]
        pts = iv.points(x, y, bottom=True)
        same = iv.vector(x, pts) == iv.vector(y, pts)
        return (x == y) == same and (y == x) == same
    if what.startswith("(a & b).is_empty()") or what.startswith("(a | b).is_any()"):
        r, a, b = live["result"], live["x"], live["y"]
        pts = iv.points(a, b, r, bottom=True)
        va, vb = iv.vector(a, pts), iv.vector(b, pts)
        if what.startswith("(a & b)"):
            return bool(r.is_empty()) == (not any(p and q for p, q in zip(va, vb)))
        return bool(r.is_any()) == all(p or q for p, q in zip(va, vb))
    if what.startswith("law "):
        lhs, rhs = live["lhs"], live["rhs"]
        pts = iv.points(lhs, rhs, bottom=True)
        same = iv.vector(lhs, pts) == iv.vector(rhs, pts)
        return (lhs == rhs) == same
    return False


def _release_only(v):
    from packaging.version import Version

    return Version(f"{v.epoch}!" + ".".join(map(str, v.release)))


def _f8_ranges(value):
    """Ranges rendered through the `~=` shortcut although their exclusive upper bound is a
    post-release (the shortcut then silently drops [release, release.postN))."""
    out = []
    for r in iv.ranges_of(value):
        try:
            text = str(r)
        except Exception:  # noqa: BLE001
            continue
        # (a post-release proper: with a dev / pre segment on top the pinned rendering does not apply - the unchanged
        # tree never shortens such a bound, so a `~=` there is a different defect and must be reported)
        if (r.max is not None and r.max.post is not None and r.max.dev is None and r.max.pre is None and not r.include_max
                and getattr(r, "simplified", None) is None and text.startswith("~=")):
            out.append(r)
    return out


@predicate
def post_release_bound_shortening(v) -> bool:
    """F8: RangeSpecifier renders [lo, X.postN) as `~=lo` (pinned by test_range_str_normalization),
    which drops [X, X.postN).  Explained iff such a range is present AND the mismatch vanishes
    when that range is read with its upper bound replaced by the release-only version."""
    import dep_logic.specifiers as S
    from packaging.version import Version

    live = v.get("_live") or {}
    value = live.get("value", live.get("spec"))
    d = v["detail"]
    if v["property"] == "C04" and value is not None and iv.readable(value) and not _f8_ranges(value) \
            and "===" in str((v.get("case") or {}).get("tree", "")):
        # === stratum: `===V & other` decides by `V in other`; the F8 range may sit in an *operand* whose membership
        # answer for V was wrong.  Explained iff a leaf of the case holds such a range and the candidate lies in its
        # dropped slice [X, X.postN) while packaging admits it and the library does not.
        from dep_logic.specifiers import parse_version_specifier
        from packaging.version import Version as _V

        if not (d.get("expected") is True and d.get("got") is False):
            return False
        ver = _V(d["version"])

        def leaves(t):
            if t[0] in ("leaf", "fss"):
                yield t[1]
            for c in t[1:]:
                if isinstance(c, list):
                    yield from leaves(c)
        for text in leaves(v["case"]["tree"]):
            if "===" in text:
                continue
            try:
                leaf = parse_version_specifier(text)
            except Exception:  # noqa: BLE001
                continue
            for r in _f8_ranges(leaf):
                if _release_only(r.max) <= ver < r.max:
                    return True
        return False
    if value is None or not iv.readable(value):
        return False
    bad = _f8_ranges(value)
    if not bad:
        return False
    if v["property"] == "C04":
        # membership: structurally admitted, really rejected, and the candidate lies in the dropped slice
        ver = Version(d["version"])
        if not (d["expected"] is True and d["got"] is False and iv.mem(value, ver)):
            return False
        return any(_release_only(r.max) <= ver < r.max for r in bad)
    if v["property"] == "C06":
        back = live.get("back")
        if back is None or not iv.readable(back):
            return False
        # the re-parsed value must be exactly the original with the shortened bound(s)
        def shorten(r):
            if any(r is b for b in bad):
                return S.RangeSpecifier(min=r.min, max=_release_only(r.max), include_min=r.include_min, include_max=False)
            return r
        rs = [shorten(r) for r in iv.ranges_of(value)]
        pts = iv.points(back, *rs)
        exp = tuple(any(iv.mem_range(r, p) for r in rs) for p in pts)
        return iv.vector(back, pts) == exp
    return False


@predicate
def macos10_on_arm64(v) -> bool:
    """F11: Platform(Macos(10, x), arm64) - a combination that never shipped - gets the tag list of
    an 11+ target (macosx_10_16..10_4_universal2, no arm64 tag).  Explained iff the platform under
    test is exactly that combination; any other platform is reported."""
    import re

    from dep_logic.tags import Platform

    plat = v["detail"].get("platform", "")
    if not re.fullmatch(r"macos_10_\d+_arm64", plat):
        return False
    # the mechanism: the arm64 branch ignores the 10.x target and emits only the universal2 tail
    return list(Platform.parse(plat).compatible_tags) == [f"macosx_10_{m}_universal2" for m in range(16, 3, -1)]


# ---------------------------------------------------------------------------------------------------
# marker layer
# ---------------------------------------------------------------------------------------------------

def _live_triplet(v):
    live = v.get("_live") or {}
    return live.get("operands"), live.get("result"), live.get("env"), live.get("combine")


@predicate
def interval_semantics_prerelease(v) -> bool:
    """F12: the algebra works on intervals, evaluation applies PEP 440's pre/post/dev exclusion
    rules.  Explained iff the environment holds a pre/dev/post release AND the mismatch vanishes
    when version atoms are decided by interval membership."""
    from . import altsem

    live = v.get("_live") or {}
    env = live.get("env")
    if env is None:
        return False
    if not altsem.has_prerelease_env(env):
        # mirror image: a pre/dev/post release *literal* in one of the atoms involved
        involved = [x for x in [live.get("marker"), live.get("result"), *(live.get("operands") or [])] if x is not None]
        if "text" in live:
            from dep_logic.markers import _build_markers
            from packaging.markers import Marker

            def collect(ms):
                for it in ms:
                    if isinstance(it, list):
                        collect(it)
                    elif isinstance(it, tuple):
                        involved.append(_build_markers(it))
            collect(Marker(live["text"])._markers)
        if not altsem.has_prerelease_literal(involved):
            return False
    if "text" in live and "marker" in live:  # C03 text level: dep-logic's answer vs the unmerged text
        return altsem.text_eval(live["text"], env, "interval") == altsem.obj_eval(live["marker"], env, "interval") \
            and altsem.obj_eval(live["marker"], env, "interval") == altsem.text_eval(live["text"], env, "interval")
    ops, res, env, comb = _live_triplet(v)
    if ops is None or res is None or comb is None:
        return False
    if v.get("property") == "C07" and not _rendering_keeps_atoms(ops, (v.get("detail") or {}).get("text")):
        # the rendered text does not even spell the marker's own atoms (operand order, operator, literal): that is a
        # rendering defect, whatever the two semantics say about pre-releases
        return False
    return comb([altsem.obj_eval(o, env, "interval") for o in ops]) == altsem.obj_eval(res, env, "interval")


def _rendering_keeps_atoms(operands, text) -> bool:
    """Every comparison atom of the rendered marker must occur in the text exactly as the object holds it: variable and
    literal on the sides `reversed` says, with the operator as seen from that side."""
    if not text:
        return True
    from dep_logic.markers.single import MarkerExpression
    from packaging.markers import Marker

    from .workloads import markers as MW

    reflect = {"<": ">", "<=": ">=", ">": "<", ">=": "<="}   # (the harness' own table, not the library's)

    try:
        raw = set()

        def collect(ms):
            for it in ms:
                if isinstance(it, list):
                    collect(it)
                elif isinstance(it, tuple):
                    lhs, op, rhs = it
                    raw.add((type(lhs).__name__, lhs.value, op.value, type(rhs).__name__, rhs.value))
        collect(Marker(text)._markers)
    except Exception:  # noqa: BLE001
        return True
    for m in operands:
        for a in MW.walk_atoms(m):
            if not isinstance(a, MarkerExpression):
                continue
            if a.reversed:
                want = ("Value", a.value, reflect.get(a.op, a.op), "Variable", a.name)
            else:
                want = ("Variable", a.name, a.op, "Value", a.value)
            if want not in raw:
                return False
    return True


@predicate
def version_list_semantics(v) -> bool:
    """F5: `python_version in / not in "3.10, 3.11"` is a substring test at evaluation (PEP 508) but a
    version list in the specifier view used for merging.  Explained iff such an atom is involved,
    the environment's python_version is a proper substring of the list text (not an element) AND the
    mismatch vanishes when those atoms are decided as version lists."""
    from . import altsem

    live = v.get("_live") or {}
    env = live.get("env")
    if env is None:
        return False
    if v["property"] == "C11":
        atom = live.get("atom")
        if atom is None or atom.name != "python_version" or atom.op not in ("in", "not in") or atom.reversed:
            return False
        if not altsem.env_is_proper_substring_of_list(env, [atom]):
            return False
        # under list semantics the specifier view and the atom agree
        return altsem.atom_eval(atom, env, "list") == bool(v["detail"]["in_specifier"])
    if "text" in live and "marker" in live:
        from dep_logic.markers import _build_markers
        from packaging.markers import Marker

        atoms = []

        def collect(ms):
            for it in ms:
                if isinstance(it, list):
                    collect(it)
                elif isinstance(it, tuple):
                    atoms.append(_build_markers(it))
        collect(Marker(live["text"])._markers)
        py = [a for a in atoms if a.name == "python_version" and a.op in ("in", "not in") and not a.reversed]
        if not py or not altsem.env_is_proper_substring_of_list(env, py):
            return False
        return altsem.text_eval(live["text"], env, "list") == altsem.obj_eval(live["marker"], env, "list")
    ops, res, env, comb = _live_triplet(v)
    if ops is None or res is None or comb is None:
        return False
    py = []
    for o in list(ops) + [res]:
        py += altsem.pyin_atoms(o)
    if not py or not altsem.env_is_proper_substring_of_list(env, py):
        return False
    return comb([altsem.obj_eval(o, env, "list") for o in ops]) == altsem.obj_eval(res, env, "list")


def _clear():
    # the renamed case must be decided on its own, not against cache entries of the original
    from .markermon import clear_caches

    clear_caches()


@predicate
def reversed_in_atom(v) -> bool:
    """F4: a literal-on-the-left `in` / `not in` atom on a string variable ("linux" in sys_platform) is
    treated like its forward counterpart by the specifier view, by == and by every equality-keyed
    cache, so it is merged/replaced wrongly.  Explained iff such an atom occurs in the case AND the
    mismatch vanishes when that atom's variable is renamed to a fresh one carrying the same value
    (which keeps the atom out of every same-variable merge and cache collision)."""
    from . import altsem
    from dep_logic.markers import parse_marker
    from packaging.markers import Marker

    live = v.get("_live") or {}
    env = live.get("env")
    case = v.get("case") or {}
    if v["property"] == "C13":
        return _f4_c13(live.get("x"), live.get("y"))
    if env is None:
        return False
    if v["property"] == "C03":
        text = live.get("text") or case.get("text")
        if not text:
            return False
        ren = altsem.rename_reversed_in([text], env)
        if ren is None or not altsem.reversed_in_has_partner([text]):
            return False
        (t2,), env2 = ren
        _clear()
        return bool(parse_marker(t2).evaluate(dict(env2))) == bool(Marker(t2).evaluate(dict(env2)))
    tree = case.get("tree")
    if not tree:
        return False
    leaves = []

    def collect(t):
        if t[0] == "m":
            leaves.append(t[1])
        elif t[0] in ("and", "or"):
            collect(t[1])
            collect(t[2])
        elif t[0] not in ("any", "empty"):
            raise ValueError(t[0])

    try:
        collect(tree)
    except ValueError:
        return False
    ren = altsem.rename_reversed_in(leaves, env)
    if ren is None or not altsem.reversed_in_has_partner(leaves):
        return False
    texts2, env2 = ren
    mapping = dict(zip(leaves, texts2))
    _clear()
    from dep_logic.markers import AnyMarker, EmptyMarker

    def build(t):
        """(library value, truth value of the unmerged text) for the renamed tree"""
        if t[0] == "m":
            t2 = mapping[t[1]]
            return parse_marker(t2), altsem.text_eval(t2, env2, "pep")
        if t[0] == "any":
            return AnyMarker(), True
        if t[0] == "empty":
            return EmptyMarker(), False
        (a, va), (b, vb) = build(t[1]), build(t[2])
        return ((a & b), (va and vb)) if t[0] == "and" else ((a | b), (va or vb))

    R, exp = build(tree)
    if v["property"] == "C07":
        back = parse_marker(str(R))
        return bool(back.evaluate(dict(env2))) == bool(R.evaluate(dict(env2)))
    return bool(R.evaluate(dict(env2))) == exp


def _f4_c13(x, y) -> bool:
    """x == y although they mean different things: explained by F4 iff a literal-on-the-left
    in / not in atom on a string variable is involved AND the two objects evaluate alike once
    every such atom is read in the forward direction (which is how == reads it)."""
    import dataclasses
    import random

    from dep_logic.markers import MarkerUnion, MultiMarker
    from dep_logic.markers.single import MarkerExpression

    from . import altsem
    from .workloads import markers as MW

    if x is None or y is None:
        return False
    found = [0]

    def fwd(m):
        if isinstance(m, MarkerExpression):
            if m.reversed and m.op in ("in", "not in") and m.name not in altsem.VERSION_VARS and m.name != "extra":
                found[0] += 1
                return MarkerExpression(m.name, m.op, m.value)
            return m
        if isinstance(m, (MultiMarker, MarkerUnion)):
            z = object.__new__(type(m))
            object.__setattr__(z, "markers", tuple(fwd(c) for c in m.markers))
            return z
        return m

    try:
        x2, y2 = fwd(x), fwd(y)
    except Exception:  # noqa: BLE001
        return False
    if not found[0]:
        return False
    envs = MW.environments(random.Random(0), [x, y], 60)
    return all(bool(x2.evaluate(dict(e))) == bool(y2.evaluate(dict(e))) for e in envs)


@predicate
def presentation_only(v) -> bool:
    """F17: the four lru_caches key on an equality that ignores the operand order of an atom and the
    order of values inside a grouped ==/!= atom, and hand back the first-seen object, so the *text*
    of a result can depend on history.  Explained iff warm and cold results have identical
    evaluation vectors, the same class, and compare == under the library's own equality.  Anything
    that evaluates differently, or is != , is a violation."""
    live = v.get("_live") or {}
    return live.get("semantic") is False and live.get("same_type") is True and live.get("lib_equal") is True


@predicate
def one_child_compound(v) -> bool:
    """F16: union_simplify / intersect_simplify return `AnyMarker & MultiMarker(one)` /
    `EmptyMarker | MarkerUnion(one)` without normalising, so a conjunction/disjunction with exactly
    one child escapes.  Explained iff the ONLY defect of the shape is compounds with exactly one
    child, i.e. unwrapping every such node yields a normal form."""
    from dep_logic.markers import MarkerUnion, MultiMarker

    from .markermon import nf_defect

    live = v.get("_live") or {}
    m = live.get("result")
    if m is None:
        return False
    diag = live.get("diag") or {}
    if not (diag.get("union_simplify") or diag.get("intersect_simplify")):
        return False  # the un-normalised shape did not come out of the two simplify helpers

    found = [0]

    def unwrap(x):
        if isinstance(x, (MultiMarker, MarkerUnion)):
            kids = [unwrap(c) for c in x.markers]
            if len(kids) == 1:
                found[0] += 1
                return kids[0]
            # rebuild without the flattening constructor touching anything else
            y = object.__new__(type(x))
            flat = []
            for k in kids:
                if type(k) is type(x):
                    flat.extend(k.markers)  # a one-child wrapper may have hidden a same-kind child
                else:
                    flat.append(k)
            object.__setattr__(y, "markers", tuple(flat))
            return y
        return x

    u = unwrap(m)
    return found[0] > 0 and nf_defect(u) is None


@predicate
def post_release_bound_in_marker(v) -> bool:
    """F8 acting through the marker layer: merging `python_full_version >= lo` with
    `python_full_version < X.postN` yields the range [lo, X.postN), which from_specifier renders
    through the pinned `~=lo` shortcut and thereby drops [X, X.postN).  Explained iff an atom of
    the operands / text has an exclusive upper bound that is a post-release AND the environment
    value lies in that dropped slice AND the result wrongly evaluates False there."""
    from packaging.version import InvalidVersion, Version

    from . import altsem
    from .workloads.markers import walk_atoms

    live = v.get("_live") or {}
    env = live.get("env")
    if env is None:
        return False
    d = v["detail"]
    got = d.get("got")
    exp = d.get("expected", d.get("packaging"))
    if not (got is False and exp is True):
        return False
    atoms = []
    for o in (live.get("operands") or []):
        atoms += walk_atoms(o)
    if "text" in live:
        from dep_logic.markers import _build_markers
        from packaging.markers import Marker

        def collect(ms):
            for it in ms:
                if isinstance(it, list):
                    collect(it)
                elif isinstance(it, tuple):
                    atoms.append(_build_markers(it))
        collect(Marker(live["text"])._markers)
    for a in atoms:
        if getattr(a, "name", None) not in altsem.VERSION_VARS or getattr(a, "op", None) != "<":
            continue
        try:
            x = Version(a.value)
            val = Version(str(env[a.name]))
        except (InvalidVersion, KeyError):
            continue
        if x.post is not None and x.dev is None and _release_only(x) <= val < x:
            return True
    return False


@predicate
def packaging_accepts_what_version_rejects(v) -> bool:
    """F25: packaging's specifier regex is matched case-insensitively in unicode mode, so an operand like
    `1.0.poſt1` (LATIN SMALL LETTER LONG S) passes SpecifierSet() although packaging.version.Version
    rejects it; no specifier can be returned for it.  Explained iff the outcome is InvalidSpecifier / an
    InvalidVersion AND packaging's own Version() rejects the operand of some clause of the text (the reference contradicts itself)."""
    from packaging.specifiers import SpecifierSet
    from packaging.version import InvalidVersion, Version

    d = v["detail"]
    blob = str(d.get("outcome", "")) + str(d.get("error", "")) + str(v.get("what", ""))
    # parse_version_specifier: InvalidSpecifier for a text SpecifierSet accepts (since the F25a repair; the
    # InvalidVersion leak before it); from_specifierset on such an object: InvalidVersion
    if v.get("monitor") == "from_specifierset":
        if "InvalidVersion" not in blob:
            return False
    elif d.get("outcome") != "invalid":   # a leaked InvalidVersion (repaired as F25a) is reported again
        return False
    text = (v.get("case") or {}).get("text") or d.get("text") or ""
    try:
        for part in text.split("||"):
            for spec in SpecifierSet(part):
                operand = spec.version[:-2] if spec.version.endswith(".*") else spec.version
                try:
                    Version(operand)
                except InvalidVersion:
                    return True
    except Exception:  # noqa: BLE001
        return False
    return False
