"""The repository's own test suite as one more workload (DESIGN §3.6).

The pinned examples are executed *inside the shard process*, i.e. with the check's monitors
installed on the very classes the tests import.  Test outcomes are ignored - only monitor events
count - and each test id becomes the current case, so a violation carries a replayable case
{"kind": "repo-test", "nodeid": ...}.
"""
from __future__ import annotations

import contextlib
import io
import os

from .boot import REPO
from .monitor import STATE


def run_repo_tests(ctx, subdirs=("",), *, nodeid=None, before_each=None) -> int:
    import pytest

    class Plugin:
        n = 0

        def pytest_runtest_setup(self, item):
            Plugin.n += 1
            ctx.cases += 1
            ctx.current_case = {"kind": "repo-test", "nodeid": item.nodeid}
            STATE.depth = 0
            if before_each is not None:
                before_each()

    root = os.path.join(REPO, "tests")
    if nodeid is not None:
        targets = [os.path.join(REPO, nodeid) if not os.path.isabs(nodeid) else nodeid]
    else:
        targets = [os.path.join(root, s) for s in subdirs]
    args = ["-q", "-p", "no:cacheprovider", "--timeout=120", "-o", "addopts=", "--rootdir", REPO, *targets]
    buf = io.StringIO()
    cwd = os.getcwd()
    os.chdir(REPO)
    try:
        with contextlib.redirect_stdout(buf), contextlib.redirect_stderr(buf):
            pytest.main(args, plugins=[Plugin()])
    finally:
        os.chdir(cwd)
        STATE.depth = 0
    ctx.extra["repo_tests_executed"] = ctx.extra.get("repo_tests_executed", 0) + Plugin.n
    ctx.shape("workload:repo-tests", Plugin.n)
    ctx.current_case = None
    return Plugin.n
