"""Seeded generators for marker texts, marker expression trees and critical environments.

Atoms are restricted to the *well-defined classes* of C02/C03: string variables with ==, !=, in,
not in; python_version / python_full_version / platform_release with ==, !=, <, <=, >, >=, ~=,
wildcards; python_version in / not in comma lists; extra == / !=; both operand orders for the
comparison operators.  Few variables and few literals per case, so that merges, absorptions and
contradictions actually happen.

A marker *tree* is JSON:  ["m", text] | ["and", t, t] | ["or", t, t] | ["only", t, [names]] |
["exclude", t, name] | ["noextras", t] | ["str", t] (str() of the value re-parsed) | ["any"] | ["empty"].
"""
from __future__ import annotations

import itertools
import random

STRVARS = ["os_name", "sys_platform", "platform_machine", "platform_system", "implementation_name",
           "platform_python_implementation"]
STRLIT = ["linux", "linux2", "lin", "win32", "win", "darwin", "nt", "posix", "", "x86_64", "arm64", "cpython", "pypy"]
# literals a renderer / tokenizer can mangle: runs of blanks, tabs, leading/trailing blanks, keywords, parentheses,
# the other quote character, '#' (real platform_version strings look like this: "#1 SMP Wed Feb  1 12:00:00 UTC 2023")
HOSTILE_STRLIT = ["Feb  1", "a\tb", " lead", "trail ", "x and y", "(x or y)", "it's", "#1 SMP  PREEMPT", "a  b  c",
                  # non-ASCII: Latin-1, BMP, and code points above U+FFFF (surrogate pairs in UTF-16 / JSON escapes)
                  "caf\u00e9", "\u65e5\u672c", "\U0001f600", "\U0001d538b"]
PYV = ["2.7", "3.0", "3.1", "3.6", "3.7", "3.8", "3.9", "3.10", "3.11", "3.12"]
PYIN_LISTS = ["3.8, 3.9", "3.8,3.9", "3.10, 3.11", "2.7, 3.12", "3.8", "3.6, 3.7, 3.8"]
PYV1 = ["3", "2", "3.8.0", "3.10.0"]  # other spellings of python_version values: bare major, X.Y.0
PYFV = ["2.7", "2.7.18", "3.0", "3.1.5", "3.6", "3.6.0", "3.6.2", "3.7", "3.7.0", "3.7.9", "3.8.0", "3.8.1", "3.9",
        "3.10", "3.10.0", "3.10.4", "3.11", "3.12.1"]
REL = ["4.19", "5.10", "5.10.0", "6", "6.1", "6.1.0", "10.0"]
EXTRAS = ["a", "b", "Foo-Bar", "foo_bar", "c"]
CMP = ["==", "!=", "<", "<=", ">", ">="]
VERSION_VARS = ["python_version", "python_full_version", "platform_release"]


class Cfg:
    """Which atom strata may be generated (the open findings live in separately labelled strata)."""

    def __init__(self, **kw):
        self.reversed_ok = True      # literal on the left for comparison operators
        self.rev_in = False          # literal on the left for in / not in on string variables (F4 stratum)
        self.pyin = False            # python_version in / not in lists (F5 stratum)
        self.pyv1 = True             # one-component python_version values
        self.tilde = True
        self.wildcard = True
        self.extras = True
        self.strin = True
        self.release = True
        self.few_vars = None         # restrict string variables
        self.prelit = False          # pre / post / dev release *literals* (separate stratum)
        self.__dict__.update(kw)


def q(s: str) -> str:
    return f'"{s}"'


def atom(rnd: random.Random, cfg: Cfg, strvars=None, strlit=None) -> str:
    strvars = strvars or cfg.few_vars or STRVARS
    strlit = strlit or STRLIT
    if getattr(cfg, "prelit", False) and rnd.random() < 0.5:
        return prelit_atom(rnd, cfg.reversed_ok)
    k = rnd.random()
    if k < 0.35:
        var = rnd.choice(strvars)
        op = rnd.choice(["==", "!=", "in", "not in"] if cfg.strin else ["==", "!="])
        lit = rnd.choice(strlit)
        if rnd.random() < 0.06:
            lit = rnd.choice(HOSTILE_STRLIT)
        if op in ("==", "!=") and cfg.reversed_ok and rnd.random() < 0.2:
            return f"{q(lit)} {op} {var}"
        if op in ("in", "not in") and cfg.rev_in and rnd.random() < 0.5:
            return f"{q(lit)} {op} {var}"
        return f"{var} {op} {q(lit)}"
    if k < 0.9:
        var = rnd.choice(["python_version", "python_version", "python_full_version", "python_full_version"]
                         + (["platform_release"] if cfg.release else []))
        pool = {"python_version": PYV + (PYV1 if cfg.pyv1 else []), "python_full_version": PYFV, "platform_release": REL}[var]
        r = rnd.random()
        if r < 0.12 and cfg.pyin and var == "python_version":
            if rnd.random() < 0.6:
                return f"{var} {rnd.choice(['in', 'not in'])} {q(rnd.choice(PYIN_LISTS))}"  # recurring literals
            vals = rnd.sample(PYV, rnd.randint(1, 3))
            return f"{var} {rnd.choice(['in', 'not in'])} {q(rnd.choice([', ', ',']).join(vals))}"
        if r < 0.2 and cfg.tilde:
            v = rnd.choice([p for p in pool if "." in p])
            return f"{var} ~= {q(v)}"
        if r < 0.3 and cfg.wildcard:
            v = rnd.choice(pool)
            v = ".".join(v.split(".")[: rnd.randint(1, 2)])
            return f"{var} {rnd.choice(['==', '!='])} {q(v + '.*')}"
        op = rnd.choice(CMP)
        v = rnd.choice(pool)
        if cfg.reversed_ok and rnd.random() < 0.15:
            return f"{q(v)} {op} {var}"
        return f"{var} {op} {q(v)}"
    if cfg.extras:
        e = rnd.choice(EXTRAS)
        op = rnd.choice(["==", "!="])
        if cfg.reversed_ok and rnd.random() < 0.15:
            return f"{q(e)} {op} extra"
        return f"extra {op} {q(e)}"
    return atom(rnd, cfg, strvars, strlit)


PRELITS = ["3.8.0rc1", "3.8.0a1", "3.9.0b2", "3.8a1", "3.8.0.dev1", "3.9.0.post1", "3.8.1rc1", "3.10.0a1", "3.8.0",
           "3.9.0", "3.8", "3.9.1"]
RELPRELITS = ["5.10.0rc1", "5.10.0.post1", "6.0a1", "5.10", "5.10.0", "6"]


def prelit_atom(rnd: random.Random, reversed_ok: bool = True) -> str:
    """Version atom whose literal may be a pre / post / dev release (valid PEP 440 versions)."""
    var = rnd.choice(["python_full_version", "python_full_version", "platform_release"])
    v = rnd.choice(PRELITS if var == "python_full_version" else RELPRELITS)
    op = rnd.choice(CMP)
    if reversed_ok and rnd.random() < 0.35:
        return f"{q(v)} {op} {var}"
    return f"{var} {op} {q(v)}"


def text(rnd: random.Random, cfg: Cfg, depth: int, strvars=None, strlit=None) -> str:
    if depth == 0 or rnd.random() < 0.3:
        return atom(rnd, cfg, strvars, strlit)
    n = rnd.randint(2, 3)
    op = rnd.choice([" and ", " or "])
    parts = [text(rnd, cfg, depth - 1, strvars, strlit) for _ in range(n)]
    return op.join(f"({p})" if (" or " in p or " and " in p or rnd.random() < 0.3) else p for p in parts)


def n_atoms(t: str) -> int:
    return t.count('"') // 2


def gen_pair(rnd: random.Random, cfg: Cfg, max_atoms: int, depth: int = 2):
    """Two marker texts over a narrowed vocabulary (merge-heavy), bounded in total atom count."""
    for _ in range(50):
        if rnd.random() < 0.5:
            base = cfg.few_vars or STRVARS
            sv = rnd.sample(base, min(len(base), rnd.randint(1, 2)))
            sl = rnd.sample(STRLIT, rnd.randint(2, 4))
        else:
            sv, sl = None, None
        a = text(rnd, cfg, rnd.randint(0, depth), sv, sl)
        b = text(rnd, cfg, rnd.randint(0, depth), sv, sl)
        if n_atoms(a) + n_atoms(b) <= max_atoms:
            return a, b
    return atom(rnd, cfg), atom(rnd, cfg)


# ------------------------------------------------------------------------------------------------
# trees
# ------------------------------------------------------------------------------------------------

def build(t, on_node=None):
    from dep_logic.markers import AnyMarker, EmptyMarker, parse_marker

    k = t[0]
    if k == "m":
        v = parse_marker(t[1])
    elif k == "mx":
        # an atom built with the public constructor: the literal stays exactly as written (parse_marker hands the
        # text to packaging, which canonicalises e.g. the names of extras first)
        from dep_logic.markers.single import MarkerExpression

        v = MarkerExpression(t[1], t[2], t[3])
    elif k == "any":
        v = AnyMarker()
    elif k == "empty":
        v = EmptyMarker()
    elif k == "and":
        v = build(t[1], on_node) & build(t[2], on_node)
    elif k == "or":
        v = build(t[1], on_node) | build(t[2], on_node)
    elif k in ("mof", "uof"):
        from dep_logic.markers import MarkerUnion, MultiMarker

        kids = [build(c, on_node) for c in t[1:]]
        v = (MultiMarker if k == "mof" else MarkerUnion).of(*kids)
    elif k == "only":
        v = build(t[1], on_node).only(*t[2])
    elif k == "exclude":
        v = build(t[1], on_node).exclude(t[2])
    elif k == "noextras":
        v = build(t[1], on_node).without_extras()
    elif k == "str":
        v = parse_marker(str(build(t[1], on_node)))
    else:
        raise ValueError(k)
    if on_node is not None:
        on_node(t, v)
    return v


def tree_text(t) -> str:
    k = t[0]
    if k == "m":
        return "`" + t[1] + "`"
    if k == "mx":
        return f'MarkerExpression(`{t[1]} {t[2]} "{t[3]}"`)'
    if k in ("any", "empty"):
        return k.upper()
    if k in ("and", "or"):
        return f"({tree_text(t[1])} {'&' if k == 'and' else '|'} {tree_text(t[2])})"
    if k in ("mof", "uof"):
        return ("MultiMarker" if k == "mof" else "MarkerUnion") + ".of(" + ", ".join(tree_text(c) for c in t[1:]) + ")"
    if k == "only":
        return f"{tree_text(t[1])}.only({', '.join(t[2])})"
    if k == "exclude":
        return f"{tree_text(t[1])}.exclude({t[2]})"
    if k == "noextras":
        return f"{tree_text(t[1])}.without_extras()"
    return f"reparse(str({tree_text(t[1])}))"


def tree_atoms(t) -> int:
    if t[0] == "m":
        return n_atoms(t[1])
    if t[0] == "mx":
        return 1
    return sum(tree_atoms(c) for c in t[1:] if isinstance(c, list) and c and isinstance(c[0], str) and c[0] in
               ("m", "and", "or", "only", "exclude", "noextras", "str", "any", "empty", "mof", "uof"))


# ------------------------------------------------------------------------------------------------
# structure walking
# ------------------------------------------------------------------------------------------------

def walk_atoms(m, acc=None):
    """All leaf SingleMarker objects (MarkerExpression and the two group classes) of a marker."""
    from dep_logic.markers import MarkerUnion, MultiMarker
    from dep_logic.markers.single import SingleMarker

    acc = [] if acc is None else acc
    if isinstance(m, SingleMarker):
        acc.append(m)
    elif isinstance(m, (MultiMarker, MarkerUnion)):
        for c in m.markers:
            walk_atoms(c, acc)
    return acc


def _conjunctions(markers, limit: int = 400):
    """Atom lists that have to hold together: the atom children of every MultiMarker, and every atom that stands
    alone (top level or as a direct alternative of a MarkerUnion)."""
    from dep_logic.markers import MarkerUnion, MultiMarker
    from dep_logic.markers.single import SingleMarker

    out = []
    seen = set()

    def visit(m, lone=True):
        if len(out) >= limit or id(m) in seen:
            return
        seen.add(id(m))
        if isinstance(m, SingleMarker):
            if lone:
                out.append([m])
        elif isinstance(m, MultiMarker):
            atoms = [c for c in m.markers if isinstance(c, SingleMarker)]
            if atoms:
                out.append(atoms)
            for c in m.markers:
                if not isinstance(c, SingleMarker):
                    visit(c, lone=False)
        elif isinstance(m, MarkerUnion):
            for c in m.markers:
                visit(c, lone=True)

    for m in markers:
        visit(m)
    return out


def names_of(m) -> set:
    return {a.name for a in walk_atoms(m)}


def atom_values(a) -> list[str]:
    from dep_logic.markers.single import MarkerExpression

    if isinstance(a, MarkerExpression):
        return [a.value]
    return list(a.values)


# ------------------------------------------------------------------------------------------------
# critical environments (DESIGN §3.5)
# ------------------------------------------------------------------------------------------------

FULLS = ["2.7.18", "3.0.1", "3.1.5", "3.5.10", "3.6.0", "3.6.2", "3.7.0", "3.7.9", "3.8.0", "3.8.1", "3.9.0", "3.9.18",
         "3.10.0", "3.10.4", "3.11.0", "3.12.1", "3.13.0"]
RELEASES = ["4.19.0", "5.10", "5.10.0", "5.10.1", "6.0", "6.1.0", "6.2", "10.0", "10.0.1"]


def _ints(s):
    import re

    out = []
    for p in s.split("."):
        p = p.strip()
        if p.isdigit():
            out.append(int(p))
        else:
            m = re.match(r"\d+", p)  # "0rc1" -> 0 : the base release of a pre-release literal
            if m:
                out.append(int(m.group(0)))
            break
    return out


def critical_fulls(values: list[str]) -> list[str]:
    """Interpreter versions X.Y.Z around the bounds mentioned by python_version/python_full_version atoms."""
    out = []
    for val in values:
        for piece in val.split(","):
            r = _ints(piece.replace("*", "").strip().rstrip("."))
            if not r:
                continue
            X = r[0]
            Y = r[1] if len(r) > 1 else 0
            Z = r[2] if len(r) > 2 else 0
            cand = [(X, Y, Z), (X, Y, Z + 1), (X, Y, max(0, Z - 1)), (X, Y, 0), (X, Y, 20), (X, Y + 1, 0), (X, Y + 1, 3),
                    (X, max(0, Y - 1), 9), (X, max(0, Y - 1), 0), (X + 1, 0, 0), (max(0, X - 1), 9, 9)]
            if len(r) == 1:
                cand += [(X, 1, 5), (X, 0, 0), (X, 0, 1)]
            out += [f"{a}.{b}.{c}" for a, b, c in cand]
    seen = []
    for v in out:
        if v not in seen:
            seen.append(v)
    return seen


def critical_releases(values: list[str]) -> list[str]:
    out = []
    for val in values:
        r = _ints(val.replace("*", "").rstrip("."))
        if not r:
            continue
        base = ".".join(map(str, r))
        out += [base, base + ".0", base + ".1"]
        r2 = list(r)
        r2[-1] += 1
        out.append(".".join(map(str, r2)))
        r3 = list(r)
        if r3[-1] > 0:
            r3[-1] -= 1
            out.append(".".join(map(str, r3)) + ".9")
        out.append(str(r[0] + 1))
    seen = []
    for v in out:
        if v not in seen:
            seen.append(v)
    return seen


def critical_strings(values: list[str]) -> list[str]:
    out = ["§other"]
    for v in values:
        out += [v, v + "x", "x" + v, v[:-1] if v else "", v[1:] if v else ""]
        for i in range(len(v)):
            out.append(v[i])
    out.append("")
    seen = []
    for v in out:
        if v not in seen:
            seen.append(v)
    return seen[:14]


def extra_spellings(name: str) -> list[str]:
    import re

    n = re.sub(r"[-_.]+", "-", name).lower()
    return list(dict.fromkeys([name, n, n.replace("-", "_"), n.upper()]))


def environments(rnd: random.Random, markers, cap: int, *, prerelease: bool = False, str_extra_only: bool = False):
    """Critical + random environments for the atoms occurring in `markers`."""
    atoms = []
    for m in markers:
        walk_atoms(m, atoms)
    by_var: dict[str, list[str]] = {}
    for a in atoms:
        by_var.setdefault(a.name, [])
        for v in atom_values(a):
            if v not in by_var[a.name]:
                by_var[a.name].append(v)
    pyvals = by_var.get("python_version", []) + by_var.get("python_full_version", [])
    fulls = critical_fulls(pyvals) if pyvals else []
    if prerelease:
        pre = []
        for f in fulls[:12]:
            pre += [f + "rc1", f + "a1", f + ".dev1", f + ".post1"]
        fulls = pre
        base_fulls = [f + "rc1" for f in FULLS[:8]]
    else:
        base_fulls = FULLS
    rels = critical_releases(by_var.get("platform_release", []))
    extras_named = by_var.get("extra", [])
    extra_choices: list = []
    if "extra" in by_var:
        names = []
        for n in extras_named[:3]:
            names += extra_spellings(n)[:2]
        names = list(dict.fromkeys(names)) + ["zz-fresh"]
        extra_choices = [""] + names
        if not str_extra_only:
            for k in (0, 1, 2, 3):
                for combo in itertools.combinations(names[:4], k):
                    extra_choices.append(set(combo))
    strvals = {v: critical_strings(by_var[v]) for v in by_var if v not in ("python_version", "python_full_version",
                                                                           "platform_release", "extra")}

    def rand_env():
        fv = rnd.choice(fulls) if fulls and rnd.random() < 0.7 else rnd.choice(base_fulls)
        e = {"python_full_version": fv,
             "platform_release": rnd.choice(rels) if rels and rnd.random() < 0.7 else rnd.choice(RELEASES)}
        if extra_choices:
            e["extra"] = rnd.choice(extra_choices)
        else:
            e["extra"] = rnd.choice(["", "a", "b"]) if (str_extra_only or rnd.random() < 0.5) else set(rnd.sample(["a", "b", "c"], rnd.randint(0, 2)))
        for v in STRVARS:
            e[v] = rnd.choice(strvals[v]) if v in strvals and rnd.random() < 0.8 else rnd.choice(STRLIT + ["§other"])
        for v in strvals:
            if v not in e:
                e[v] = rnd.choice(strvals[v])
        return e

    envs = []
    # every critical value of every variable at least once (crossed with random values of the others)
    for fv in fulls:
        e = rand_env()
        e["python_full_version"] = fv
        envs.append(e)
    for r in rels:
        e = rand_env()
        e["platform_release"] = r
        envs.append(e)
    for v, vals in strvals.items():
        for s in vals:
            e = rand_env()
            e[v] = s
            envs.append(e)
    for x in extra_choices:
        e = rand_env()
        e["extra"] = x
        envs.append(e)
    rnd.shuffle(envs)
    # witness environments: for every conjunction (and every lone atom) an assignment that makes its positive
    # string atoms true at once - random crossing alone almost never satisfies `v1 == "a" and v2 == "b" and ...`
    wit = []
    conjs = _conjunctions(markers)
    for ci, conj in enumerate(conjs * 2):
        e = rand_env()
        if ci >= len(conjs):
            # isolating flavour: every other variable takes a value no literal mentions, the version variables an
            # extreme - so that (as far as possible) this conjunction is the only thing that holds
            for v in list(e):
                if v in ("python_full_version", "python_version"):
                    e["python_full_version"] = rnd.choice(["2.7.18", "3.0.1", "3.13.0"] if not prerelease else ["2.7.18rc1", "3.13.0rc1"])
                elif v == "platform_release":
                    e[v] = rnd.choice(["0.1", "99.0"])
                elif v == "extra":
                    e[v] = "" if (str_extra_only or rnd.random() < 0.5) else set()
                else:
                    e[v] = "§other"
        hit = False
        for a in conj:
            nm = getattr(a, "name", None)
            if nm in ("python_version", "python_full_version", "platform_release") or nm is None:
                continue
            vals = atom_values(a)
            op = getattr(a, "op", "==" if type(a).__name__ == "EqualityMarkerUnion" else "!=")
            if getattr(a, "reversed", False) or not vals:
                continue
            if op == "==":
                if nm == "extra" and isinstance(e.get("extra"), set) and not str_extra_only:
                    e[nm] = e[nm] | {vals[0]}     # several `extra ==` atoms of one conjunction hold together
                else:
                    e[nm] = vals[0] if nm != "extra" or str_extra_only or rnd.random() < 0.5 else {vals[0]}
                hit = True
            elif op == "in" and nm != "extra":
                parts = [x for x in vals[0].replace(",", " ").split() if x] or [vals[0]]
                e[nm] = rnd.choice(parts + [vals[0]])
                hit = True
        if hit:
            wit.append(e)
    if wit:
        rnd.shuffle(wit)
        wit = wit[:max(4, cap // 3)]
        # conjunctions over extra: all named extras at once
        envs = wit + envs
    envs = envs[:cap]
    while len(envs) < min(cap, 12):
        envs.append(rand_env())
    for e in envs:
        fv = e["python_full_version"]
        r = _ints(fv)
        e["python_version"] = f"{r[0]}.{r[1]}"
    return envs


def env_brief(env: dict, names) -> dict:
    keep = set(names) | ({"python_full_version"} if ({"python_version", "python_full_version"} & set(names)) else set())
    return {k: (sorted(v) if isinstance(v, set) else v) for k, v in env.items() if k in keep}
