"""Seeded generators for versions, specifier texts and specifier expression trees (DESIGN §3.6).

A *tree* is JSON: ["leaf", text] | ["fss", text] | ["any"] | ["rany"] | ["empty"] |
["and", t, t] | ["or", t, t] | ["not", t].  Leaves go through the real parser, so every object a
tree evaluates to is reachable from the public API.  build() evaluates a tree bottom-up through
the real operators (which are monitored).
"""
from __future__ import annotations

import random

from packaging.specifiers import InvalidSpecifier as PkgInvalid
from packaging.specifiers import SpecifierSet
from packaging.version import Version

from ..models.intervals import succ

SEGS = [0, 1, 2, 9, 10]
ORD_OPS = ["<", "<=", ">", ">="]


def gen_version(rnd: random.Random, *, suffix_p: float = 0.35, epoch_p: float = 0.12, maxlen: int = 4) -> str:
    n = rnd.choice([1, 2, 2, 2, 3, 3, 4][: 3 + maxlen]) if maxlen >= 4 else rnd.randint(1, maxlen)
    if maxlen >= 4 and rnd.random() < 0.04:
        n = rnd.randint(5, 6)  # more than four release segments
    segs = SEGS if rnd.random() < 0.9 else SEGS + [11, 19, 20, 99, 100, 2024]
    s = ".".join(str(rnd.choice(segs)) for _ in range(n))
    if rnd.random() < epoch_p:
        # (now and then a number at / beyond the machine word: sentinels such as sys.maxsize are ordinary values here)
        big = [2 ** 31 - 1, 2 ** 31, 2 ** 63 - 1, 2 ** 63, 2 ** 64, 10 ** 30]
        s = f"{rnd.choice([1, 2, 1, 2, 10, 20, 100]) if rnd.random() < 0.85 else rnd.choice(big)}!{s}"
    elif rnd.random() < 0.01:
        s = f"{rnd.choice([2 ** 31, 2 ** 63 - 1, 2 ** 63, 2 ** 64, 10 ** 30])}.{s}"     # a huge leading release number
    if rnd.random() < suffix_p:
        k = rnd.random()
        if k < 0.4:
            s += rnd.choice(["a", "b", "rc"]) + str(rnd.choice([0, 1, 2]))
        if 0.3 < k < 0.7:
            s += f".post{rnd.choice([0, 1, 2])}"
        if k > 0.6:
            s += f".dev{rnd.choice([0, 1, 2])}"
    return s


def respell(rnd: random.Random, v: str) -> str:
    """Another spelling of an equal version (trailing zeros)."""
    ver = Version(v)
    if ver.pre or ver.post is not None or ver.dev is not None:
        return v
    rel = list(ver.release)
    k = rnd.random()
    if k < 0.4:
        rel = rel + [0] * rnd.randint(1, 2)
    elif k < 0.7:
        while len(rel) > 1 and rel[-1] == 0:
            rel.pop()
    ep = f"{ver.epoch}!" if ver.epoch else ""
    return ep + ".".join(map(str, rel))


def nonnorm(rnd: random.Random, v: str) -> str:
    """A non-normalised spelling of the same version (PEP 440 appendix: v prefix, alternate
    pre/post spellings, separators, case, implicit numbers)."""
    ver = Version(v)
    s = (f"{ver.epoch}!" if ver.epoch else "") + ".".join(map(str, ver.release))
    if rnd.random() < 0.3:
        s = rnd.choice(["v", "V"]) + s
    if ver.pre:
        name = {"a": ["a", "alpha", "A", "ALPHA"], "b": ["b", "beta", "B"], "rc": ["rc", "c", "pre", "preview", "RC"]}[ver.pre[0]]
        s += rnd.choice(["", ".", "-", "_"]) + rnd.choice(name) + rnd.choice(["", ".", "-", "_"]) + str(ver.pre[1])
    if ver.post is not None:
        s += rnd.choice([f".post{ver.post}", f"-{ver.post}", f"post{ver.post}", f".rev{ver.post}", f"-r{ver.post}",
                         f"_post{ver.post}", f".POST{ver.post}", f".post.{ver.post}"])
    if ver.dev is not None:
        s += rnd.choice([f".dev{ver.dev}", f"dev{ver.dev}", f"-dev{ver.dev}", f"_dev{ver.dev}", f".DEV{ver.dev}"])
    if Version(s) != ver:
        raise AssertionError((s, v))
    return s


def version_pool(rnd: random.Random, n: int | None = None) -> list[str]:
    n = n or (rnd.randint(6, 16) if rnd.random() < 0.9 else rnd.randint(24, 40))  # some pools allow unions of 9-16 ranges
    pool: list[str] = []
    while len(pool) < n:
        v = gen_version(rnd)
        pool.append(v)
        r = rnd.random()
        if r < 0.25:
            pool.append(respell(rnd, v))
        elif r < 0.45:
            pool.append(str(succ(Version(v))))  # adjacency at the finest granularity
        elif r < 0.55:
            # the release-only version of a suffixed one and neighbours in the last segment
            ver = Version(v)
            rel = list(ver.release)
            pool.append(".".join(map(str, rel)))
            rel[-1] += 1
            pool.append(".".join(map(str, rel)))
    return pool


def _valid(text: str) -> bool:
    try:
        SpecifierSet(text)
        return True
    except PkgInvalid:
        return False


def gen_clause(rnd: random.Random, pool: list[str], *, arbitrary: bool = False, nonnorm_p: float = 0.08) -> str:
    for _ in range(20):
        v = rnd.choice(pool)
        k = rnd.random()
        if k < 0.5:
            text = rnd.choice(ORD_OPS) + v
        elif k < 0.62:
            text = "==" + v
        elif k < 0.72:
            text = "!=" + v
        elif k < 0.82:
            text = "~=" + v
        elif k < 0.92:
            ver = Version(v)
            rel = list(ver.release)[: rnd.randint(1, len(ver.release))]
            ep = f"{ver.epoch}!" if ver.epoch else ""
            text = rnd.choice(["==", "!="]) + ep + ".".join(map(str, rel)) + ".*"
        else:
            text = rnd.choice(ORD_OPS) + respell(rnd, v)
        if nonnorm_p and rnd.random() < nonnorm_p and not text.endswith(".*"):
            op = text[:2] if text[1] in "=" else text[:1]
            text = op + rnd.choice(["", " "]) + nonnorm(rnd, text[len(op):])
        if arbitrary and rnd.random() < 0.15:
            text = "===" + rnd.choice(["1.0", "1.0.0", "abc", v])
        if _valid(text):
            return text
    return ">=" + rnd.choice(pool).split("!")[-1].split("a")[0].split("b")[0].split("rc")[0].split(".post")[0].split(".dev")[0]


def gen_leaf_text(rnd: random.Random, pool: list[str], *, arbitrary: bool = False, union_p: float = 0.12) -> str:
    k = rnd.random()
    if k < 0.02:
        return ""
    if k < 0.04:
        return "<empty>"
    n = rnd.choice([1, 1, 1, 2, 2, 3])
    text = ",".join(gen_clause(rnd, pool, arbitrary=arbitrary) for _ in range(n))
    if rnd.random() < union_p:
        m = rnd.randint(1, 3)
        text = "||".join([text] + [",".join(gen_clause(rnd, pool) for _ in range(rnd.choice([1, 1, 2])))
                                   for _ in range(m)])
    return text


def hostile_leaf(rnd: random.Random, pool: list[str]) -> str:
    """Shapes the merge code branches on: equal bounds / different inclusivity, touching ranges,
    a range swallowing several union members, wide unions."""
    vs = sorted({Version(v) for v in pool})
    k = rnd.random()
    if k < 0.2 and len(vs) >= 2:
        a = rnd.choice(vs)
        return rnd.choice([f">={a}", f">{a}", f"<={a}", f"<{a}", f"=={a}", f"!={a}"])
    if k < 0.4 and len(vs) >= 3:
        a, b, c = sorted(rnd.sample(vs, 3))
        i1, i2 = rnd.choice(["<", "<="]), rnd.choice([">", ">="])
        return f">={a},{i1}{b}||{i2}{b},<{c}"
    if k < 0.7 and len(vs) >= 6:
        n = rnd.randint(3, min(16, len(vs) // 2))
        pts = sorted(rnd.sample(vs, 2 * n))
        parts = []
        for i in range(0, 2 * n, 2):
            lo, hi = pts[i], pts[i + 1]
            parts.append(f"{rnd.choice(['>', '>='])}{lo},{rnd.choice(['<', '<='])}{hi}")
        return "||".join(parts)
    if len(vs) >= 2:
        a, b = sorted(rnd.sample(vs, 2))
        return f"{rnd.choice(['>', '>='])}{a},{rnd.choice(['<', '<='])}{b}"
    return f">={vs[0]}"


def adjacent_unions_tree(rnd: random.Random, pool: list[str]) -> list | None:
    """Two multi-range unions, the left one entirely below the right one and *touching* it
    (last upper bound == first lower bound, exactly one side inclusive), combined with | and
    usually complemented afterwards - the shape on which an unmerged pair becomes observable."""
    vs = sorted({Version(v) for v in pool})
    if len(vs) < 7:
        return None
    k = rnd.randint(2, 3)
    m = rnd.randint(2, 3)
    need = 2 * (k + m) - 1
    if len(vs) < need:
        k = m = 2
        need = 7
    pts = sorted(rnd.sample(vs, need))

    def ranges(ps, first_lo=None, last_hi=None):
        out = []
        for i in range(0, len(ps) - 1, 2):
            lo = first_lo if (i == 0 and first_lo) else f"{rnd.choice(['>', '>='])}{ps[i]}"
            hi = last_hi if (i + 2 >= len(ps) and last_hi) else f"{rnd.choice(['<', '<='])}{ps[i + 1]}"
            out.append(f"{lo},{hi}")
        return "||".join(out)

    left_pts, right_pts = pts[: 2 * k], pts[2 * k - 1:]
    incl_left = rnd.random() < 0.5
    shared = left_pts[-1]
    left = ranges(left_pts, last_hi=f"{'<=' if incl_left else '<'}{shared}")
    right = ranges(right_pts + ([right_pts[-1]] if len(right_pts) % 2 else []), first_lo=f"{'>' if incl_left else '>='}{shared}")
    t = ["or", ["leaf", left], ["leaf", right]]
    if rnd.random() < 0.3:
        t = ["or", t[2], t[1]]
    r = rnd.random()
    if r < 0.5:
        t = ["not", t]
    elif r < 0.7:
        t = ["and", ["not", t], ["leaf", f">={pts[0]}"]]
    return t


def gen_tree(rnd: random.Random, pool: list[str], depth: int, *, arbitrary: bool = False,
             closure: list | None = None, hostile_p: float = 0.3) -> list:
    if depth >= 2 and hostile_p and rnd.random() < 0.06:
        t = adjacent_unions_tree(rnd, pool)
        if t is not None:
            return t
    if depth <= 0 or rnd.random() < 0.25:
        k = rnd.random()
        if closure and k < 0.25:
            return rnd.choice(closure)
        if k < 0.29:
            return [rnd.choice(["any", "rany", "empty"])]
        if k < 0.29 + hostile_p:
            return ["leaf", hostile_leaf(rnd, pool)]
        text = gen_leaf_text(rnd, pool, arbitrary=arbitrary)
        if "||" not in text and text != "<empty>" and rnd.random() < 0.2:
            return ["fss", text]
        return ["leaf", text]
    k = rnd.random()
    if k < 0.2:
        return ["not", gen_tree(rnd, pool, depth - 1, arbitrary=arbitrary, closure=closure, hostile_p=hostile_p)]
    op = "and" if k < 0.6 else "or"
    return [op,
            gen_tree(rnd, pool, depth - 1, arbitrary=arbitrary, closure=closure, hostile_p=hostile_p),
            gen_tree(rnd, pool, depth - 1, arbitrary=arbitrary, closure=closure, hostile_p=hostile_p)]


def _fold(op: str, items: list) -> list:
    t = items[0]
    for x in items[1:]:
        t = [op, t, x]
    return t


def _balanced(op: str, items: list) -> list:
    if len(items) == 1:
        return items[0]
    mid = len(items) // 2
    return [op, _balanced(op, items[:mid]), _balanced(op, items[mid:])]


def large_tree(rnd: random.Random, kmax: int = 80, shape: int | None = None) -> list:
    """Far beyond the size of the random trees: unions of 20-80 ranges assembled by long left folds or balanced
    folds of `|`, intersections of many `!=` clauses, both combined and complemented; alternating folds
    (((l1 | l2) & l3) | l4) ... of up to 80 steps.  Bounds are drawn from a sorted ladder so that most ranges
    stay disjoint and the unions really grow; some rungs coincide / touch."""
    k = rnd.choice([x for x in (20, 30, 50, 80, 120) if x <= kmax] or [kmax])
    if shape is not None and shape < 0:   # the first large tree of a shard: the two biggest operands under `&`
        k, shape = kmax, 7
    ep = rnd.choice(["", "", "1!"])
    rungs = sorted({(rnd.randint(0, 3 * k), rnd.choice([0, 0, 1, 5, 10])) for _ in range(3 * k)})
    vs = [f"{ep}{a}.{b}" for a, b in rungs]

    def ranges(n, start):
        out = []
        i = start
        while len(out) < n and i + 1 < len(vs):
            lo, hi = vs[i], vs[i + 1]
            out.append(["leaf", f"{rnd.choice(['>=', '>'])}{lo},{rnd.choice(['<', '<='])}{hi}"])
            i += rnd.choice([1, 2, 2, 2, 3])
        rnd.shuffle(out)
        return out

    def union(n, start):
        items = ranges(n, start)
        return (_fold if rnd.random() < 0.5 else _balanced)("or", items) if items else ["empty"]

    if shape is None:
        shape = rnd.randrange(9)
    if shape == 8:
        # a big union meets small operands placed at its joints: below its first range, across its first
        # bound, starting exactly at (inclusive / exclusive) a range's start or end, inside a gap, beyond the end
        u = union(k, rnd.choice([0, 1, 2]))
        mid = rnd.sample(vs[1:-1], min(6, max(1, len(vs) - 2)))
        probes = [f"<{vs[0]}", f"<={vs[0]}", f">={vs[0]},<{vs[1]}", f">{vs[-1]}", f">={vs[-1]}", f"=={vs[0]}"]
        if ep:
            probes += ["<1", ">=0.5,<2"]          # the whole epoch-0 line lies below an epoch-1 union
        else:
            probes += ["<0.0.1", ">=0.dev1,<=0"]
        for v in mid:
            probes += [f">{v}", f">={v}", f"<{v}", f"<={v}", f"=={v}", f"!={v}", f">{v},<{vs[min(len(vs) - 1, vs.index(v) + 2)]}"]
        rnd.shuffle(probes)
        items = []
        for ptxt in probes[:14]:
            leaf = ["leaf", ptxt]
            op = rnd.choice(["or", "or", "and"])
            items.append([op, u, leaf] if rnd.random() < 0.6 else [op, leaf, u])
        return _fold(rnd.choice(["and", "or"]), items)
    if shape == 7:
        u1, u2 = union(k, 0), union(k, rnd.randint(0, 3))
        return ["or", ["and", u1, u2], ["and", u2, u1]]
    if shape == 0:
        return [rnd.choice(["and", "or"]), union(k, 0), union(k, rnd.randint(0, 3))]
    if shape == 1:
        return ["not", union(k, 0)]
    if shape == 2:
        return ["and", union(k, 0), ["not", union(k // 2, rnd.randint(0, 5))]]
    if shape == 3:   # many exclusions: a comma text and a fold of != leaves must agree with the interval model
        pts = rnd.sample(vs, min(len(vs), k))
        t = _fold("and", [["leaf", f"!={v}"] for v in pts])
        return [rnd.choice(["and", "or"]), t, union(k // 2, 0)]
    if shape == 4:   # alternating fold
        items = ranges(k, 0) + [["leaf", f"!={v}"] for v in rnd.sample(vs, 5)]
        rnd.shuffle(items)
        t = items[0]
        for i, x in enumerate(items[1:]):
            t = ["or" if i % 2 == 0 else "and", t, x] if rnd.random() < 0.8 else ["or", t, ["not", x]]
        return t
    if shape == 5:   # De Morgan on big operands
        u1, u2 = union(k // 2, 0), union(k // 2, 1)
        return ["and", ["not", ["and", u1, u2]], ["or", ["not", u1], ["not", u2]]]
    u = union(k, 0)
    return ["and", ["or", u, ["not", u]], ["not", ["not", u]]]


def tree_size(t: list) -> int:
    return 1 + sum(tree_size(c) for c in t[1:] if isinstance(c, list))


def tree_leaves(t: list) -> list[str]:
    if t[0] in ("leaf", "fss"):
        return [t[1]]
    out = []
    for c in t[1:]:
        if isinstance(c, list):
            out.extend(tree_leaves(c))
    return out


class LeafError(Exception):
    """A leaf could not be parsed (belongs to C17, not to the algebra properties)."""


def build(t: list, on_node=None, shared: dict | None = None):
    """Evaluate a tree through the real API. on_node(tree, value) is called for every node.

    shared: when given, equal leaves of one case evaluate to the *same object* (users keep and reuse
    specifier objects; aliasing between operands is part of what is reachable)."""
    from dep_logic.specifiers import (AnySpecifier, EmptySpecifier, RangeSpecifier,
                                      from_specifierset, parse_version_specifier)

    kind = t[0]
    if kind == "leaf":
        if shared is not None and t[1] in shared:
            v = shared[t[1]]
            if on_node is not None:
                on_node(t, v)
            return v
        try:
            v = parse_version_specifier(t[1])
        except Exception as e:
            raise LeafError(f"{t[1]!r}: {type(e).__name__}: {e}") from e
        if shared is not None:
            shared[t[1]] = v
    elif kind == "fss":
        try:
            v = from_specifierset(SpecifierSet(t[1]))
        except Exception as e:
            raise LeafError(f"fss {t[1]!r}: {type(e).__name__}: {e}") from e
    elif kind == "any":
        v = AnySpecifier()
    elif kind == "rany":
        v = RangeSpecifier()
    elif kind == "empty":
        v = EmptySpecifier()
    elif kind == "not":
        v = ~build(t[1], on_node, shared)
    elif kind == "and":
        v = build(t[1], on_node, shared) & build(t[2], on_node, shared)
    elif kind == "or":
        v = build(t[1], on_node, shared) | build(t[2], on_node, shared)
    else:
        raise ValueError(kind)
    if on_node is not None:
        on_node(t, v)
    return v


def tree_text(t: list) -> str:
    k = t[0]
    if k == "leaf":
        return repr(t[1])
    if k == "fss":
        return f"fss({t[1]!r})"
    if k in ("any", "rany", "empty"):
        return k.upper()
    if k == "not":
        return f"~({tree_text(t[1])})"
    return f"({tree_text(t[1])} {'&' if k == 'and' else '|'} {tree_text(t[2])})"


HASH_MODULUS = 2 ** 61 - 1  # CPython hashes non-negative ints modulo this prime


def hash_twin(v: str) -> str:
    """A different version whose hash equals hash(Version(v)): one release component moved by the
    int-hash modulus.  Hostile operand for anything keyed on hash() without confirming ==."""
    ver = Version(v)
    rel = list(ver.release)
    rel[0] += HASH_MODULUS  # the first component is never a stripped trailing zero
    out = (f"{ver.epoch}!" if ver.epoch else "") + ".".join(map(str, rel))
    if ver.pre:
        out += f"{ver.pre[0]}{ver.pre[1]}"
    if ver.post is not None:
        out += f".post{ver.post}"
    if ver.dev is not None:
        out += f".dev{ver.dev}"
    return out
