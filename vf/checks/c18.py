"""C18 - wheel file names and platform names are parsed faithfully.

Deciding monitors: post-condition on parse_wheel_tags (called directly and through
EnvSpec.wheel_compatibility): for a name packaging accepts, the three tag sets equal those of
packaging.utils.parse_wheel_filename; a spy on EnvSpec.compatibility checks wheel_compatibility
hands exactly those lists on; wrong extension / part count must raise InvalidWheelFilename.
Platform names: every Platform.choices() entry parses, aliases resolve to the documented targets,
Platform.parse(str(p)) == p.
"""
from __future__ import annotations

import itertools

from packaging.utils import InvalidWheelFilename as PkgInvalidWheel
from packaging.utils import parse_wheel_filename

from ..monitor import bump, install, violation

PROP = "C18"
ANCHORS = ['dep_logic.tags.tags:parse_wheel_tags', 'dep_logic.tags.tags:EnvSpec.wheel_compatibility', 'dep_logic.tags.platform:Platform.parse', 'dep_logic.tags.platform:Platform.__str__', 'dep_logic.tags.platform:Arch.parse']
RULE = ("PEP 427 grammar: project names with _ and . and digits, versions with epoch/pre/post/dev/local, optional "
        "build tags (digits, digits+letters), python/abi/platform tags incl. dotted compressed sets; mutations of "
        "extension (.zip, .whl.txt, none, .WHL, .tar.gz) and part count (dropped / added parts). Platform strings: "
        "all Platform.choices() entries with X_Y over a grid incl. multi-digit values, every architecture spelling, "
        "aliases. Non-trivial/distinct: names with a build tag or a compressed tag set; distinct platform strings.")
ASSUMPTIONS = [
    "reference = packaging.utils.parse_wheel_filename of the installed packaging release",
    "names with the right part count but an invalid project name / version / build tag need not be rejected (statement)",
]
MIN_EVENTS = {"parse_wheel_tags": 2000, "wheel_compatibility->compatibility": 500, "reject": 200, "platform-roundtrip": 300,
              "platform-roundtrip-after-use": 300}
MIN_SHAPES = {"build-tag": 100, "compressed": 100, "reject:extension": 50, "reject:parts": 50}
SHARDS = {"quick": 2, "thorough": 8}

NAMES = ["foo", "foo_bar", "Foo.Bar", "foo_bar_baz", "a", "zope.interface", "ruamel.yaml.clib", "A1", "x_1_2", "py3_thing"]
VERS = ["1.0", "1.0.0", "2024.1.1", "1.0a1", "1.0.post1", "1.0.dev1", "1!2.0", "1.0+local.1", "0.1rc2", "3", "1.0_1",
        "1.0+ubuntu_1"]
BUILDS = [None, "1", "2abc", "0", "123_x", "7b", "1%2d2", "3%5fx"]
PY = ["py3", "py2.py3", "cp38", "cp310", "cp38.cp39", "pp310", "cp36.cp37.cp38", "py39", "CP38", "Py3.cp310"]
ABI = ["none%2dany", "abi3%2Ecp38", "none", "abi3", "cp38", "cp310", "cp38m", "pypy310_pp73", "cp313t", "abi3.cp38", "none.abi3", "cp39.cp310"]
PLAT = ["win%5famd64", "any%2Ewhl", "manylinux_2_17_x86_64%2emusllinux_1_1_x86_64", "any", "linux_x86_64", "manylinux_2_17_x86_64.manylinux2014_x86_64", "macosx_10_9_x86_64", "win_amd64",
        "macosx_11_0_arm64.macosx_10_9_universal2", "manylinux1_i686", "musllinux_1_1_aarch64",
        "manylinux_2_5_x86_64.manylinux1_x86_64.manylinux_2_12_x86_64.manylinux2010_x86_64"]


def setup(ctx):
    import dep_logic.tags.tags as T

    state = ctx.c18 = {"expect_lists": None}

    def post_parse(args, kwargs, r):
        fn = args[0]
        ctx.evaluations += 1
        try:
            exp = parse_wheel_filename(fn)
        except PkgInvalidWheel:
            ext_ok = fn.endswith(".whl")
            dashes = fn[:-4].count("-") if ext_ok else None
            if not ext_ok or dashes not in (4, 5):
                violation(PROP, "parse_wheel_tags", "a name with wrong extension or part count was accepted",
                          {"filename": fn, "result": r, "group": "accept-bad"})
            else:
                ctx.shape("accepted-though-packaging-rejects (allowed: only extension/part count are claimed)")
            return
        tags = exp[3]
        ep = ({t.interpreter for t in tags}, {t.abi for t in tags}, {t.platform for t in tags})
        got = tuple(set(x) for x in r)
        if got != ep or any(len(set(x)) != len(x) for x in r):
            violation(PROP, "parse_wheel_tags", "tag sets differ from packaging.utils.parse_wheel_filename",
                      {"filename": fn, "got": [sorted(x) for x in r], "expected": [sorted(x) for x in ep], "group": "tags"})
        if state.get("via"):
            state["expect_lists"] = r
        if hasattr(ctx, "c18_seen") and len(ctx.c18_seen) < 400:
            ctx.c18_seen.append((fn, tuple(list(x) for x in r)))

    def exc_parse(args, kwargs, exc):
        fn = args[0]
        ctx.evaluations += 1
        if not isinstance(exc, T.InvalidWheelFilename):
            violation(PROP, "parse_wheel_tags", f"raised {type(exc).__name__} instead of InvalidWheelFilename",
                      {"filename": fn, "error": str(exc)[:120], "group": "exc-type"})
            return
        try:
            parse_wheel_filename(fn)
        except PkgInvalidWheel:
            return
        violation(PROP, "parse_wheel_tags", "rejects a wheel file name that packaging accepts",
                  {"filename": fn, "error": str(exc)[:120], "group": "reject-valid"})

    def post_compat(args, kwargs, r):
        exp = state["expect_lists"]
        if exp is None:
            return
        state["expect_lists"] = None
        bump("wheel_compatibility->compatibility")
        if (list(args[1]), list(args[2]), list(args[3])) != tuple(list(x) for x in exp):
            violation(PROP, "EnvSpec.compatibility", "wheel_compatibility did not pass on the parsed tag lists",
                      {"parsed": [list(x) for x in exp], "passed": [list(args[1]), list(args[2]), list(args[3])]})

    install(T, "parse_wheel_tags", post_parse, mon="parse_wheel_tags", on_exc=exc_parse)
    install(T.EnvSpec, "compatibility", post_compat, mon="compat-spy")


def _end_to_end(spec, fn, got_score):
    """The score must be the one of the tag sets of THIS file name, read by the harness' own split of the name
    (lower-cased, as packaging reports them)."""
    from ..monitor import oracle as _oracle

    stem = fn[:-4] if fn.endswith(".whl") else None
    if stem is None or stem.count("-") not in (4, 5):
        return
    bump("wheel_compatibility-end-to-end")
    own = [part.lower().split(".") for part in stem.split("-")[-3:]]
    with _oracle():
        want_score = spec.compatibility(*own)
    if got_score != want_score:
        violation(PROP, "EnvSpec.wheel_compatibility", "the score is not that of the tag sets in the file name",
                  {"filename": fn, "got": got_score, "expected": want_score, "tags": own, "group": "end-to-end"})


class _StrName(str):
    """A plain str subclass."""


def _names(ctx, n):
    import dep_logic.tags.tags as T
    from dep_logic.tags import EnvSpec

    rnd = ctx.rnd
    spec = EnvSpec.from_spec(">=3.8", "linux", "cpython")
    for i in range(n):
        parts = [rnd.choice(NAMES), rnd.choice(VERS)]
        b = rnd.choice(BUILDS)
        if b:
            parts.append(b)
        py, abi, plat = rnd.choice(PY), rnd.choice(ABI), rnd.choice(PLAT)
        parts += [py, abi, plat]
        fn = "-".join(parts) + ".whl"
        mutated = None
        r = rnd.random()
        if r < 0.1:
            fn = fn[:-4] + rnd.choice([".zip", ".whl.txt", "", ".WHL", ".tar.gz", ".whl ", ".wh"])
            mutated = "extension"
        elif r < 0.2:
            fn = "-".join(fn.split("-")[rnd.randint(1, 3):])
            mutated = "parts"
        elif r < 0.25:
            fn = "x-" + "y-" * rnd.randint(1, 2) + fn
            mutated = "parts"
        ctx.cases += 1
        ctx.current_case = {"kind": "wheel", "filename": fn}
        ctx.nontrivial(fn)
        if mutated is None:
            if b:
                ctx.shape("build-tag")
            if "." in py + abi + plat:
                ctx.shape("compressed")
        via = rnd.random() < 0.5
        try:
            if via:
                ctx.c18["via"] = True
                try:
                    got_score = spec.wheel_compatibility(fn)
                finally:
                    ctx.c18["via"] = False
                    ctx.c18["expect_lists"] = None
                _end_to_end(spec, fn, got_score)
            else:
                arg = fn
                k = rnd.random()
                if k < 0.1:
                    arg = _StrName(fn)           # a str subclass instance
                    ctx.shape("call-form:str-subclass")
                elif k < 0.15:
                    import enum

                    arg = enum.Enum("WheelFile", {"X": fn}, type=str).X   # a (str, Enum) member whose value is the name
                    ctx.shape("call-form:str-enum-member")
                res = T.parse_wheel_tags(arg)
                if rnd.random() < 0.3:
                    # a consumer that edits the lists it was handed (they are its own): later parses must not see it
                    for lst in res:
                        if rnd.random() < 0.5:
                            lst.clear()
                        else:
                            lst.append("edited-by-caller")
                    ctx.shape("consumer-mutation")
            if mutated and (not fn.endswith(".whl") or fn[:-4].count("-") not in (4, 5)):
                pass  # post_parse reports it
        except T.InvalidWheelFilename:
            bump("reject")
            if mutated:
                ctx.shape("reject:" + mutated)
        except Exception:  # noqa: BLE001  (reported by exc_parse)
            pass
        if len(ctx.samples) < 5 and i % 300 == 5:
            ctx.sample({"filename": fn, "mutated": mutated})


ALIASES = {"linux": "manylinux_2_17_x86_64", "windows": "windows_amd64", "macos": "macos_14_0_arm64",
           "alpine": "musllinux_1_2_x86_64", "macos_arm64": "macos_14_0_arm64", "macos_x86_64": "macos_14_0_x86_64"}
ARCH = ["x86_64", "aarch64", "arm64", "amd64", "x86", "i686", "armv7l", "ppc64le", "s390x", "riscv64", "loongarch64",
        "ppc64", "armv6l", "i386"]
XY = [(2, 17), (10, 9), (14, 0), (1, 2), (11, 0), (2, 5), (12, 34), (100, 200), (0, 0), (2, 40), (10, 16), (26, 1)]


def _platforms(ctx, only=None):
    from dep_logic.tags import Platform

    def one(text, expect_major_minor=None):
        ctx.cases += 1
        ctx.evaluations += 1
        ctx.current_case = {"kind": "platform", "text": text}
        ctx.nontrivial("plat", text)
        bump("platform-roundtrip")
        try:
            p = Platform.parse(text)
        except Exception as e:  # noqa: BLE001
            violation(PROP, "Platform.parse", f"a documented platform name does not parse ({type(e).__name__})",
                      {"text": text, "error": str(e)[:120], "group": "parse"})
            return None
        if expect_major_minor is not None and (p.os.major, p.os.minor) != expect_major_minor:
            violation(PROP, "Platform.parse", "X_Y version parsed wrongly",
                      {"text": text, "got": [p.os.major, p.os.minor], "group": "xy"})
        def roundtrip(stage):
            try:
                s = str(p)
                back = Platform.parse(s)
            except Exception as e:  # noqa: BLE001
                violation(PROP, "Platform.__str__", f"str()/re-parse raised {type(e).__name__} ({stage})", {"text": text, "group": "rt-exc"})
                return False
            if back != p or p != back or hash(back) != hash(p):
                violation(PROP, "Platform.__str__", f"Platform.parse(str(p)) != p ({stage})",
                          {"text": text, "str": s, "back": str(back), "group": "rt/" + stage})
                return False
            return True

        if roundtrip("fresh object"):
            # the same object again after it has been *used*: lazily computed attributes must not leak into ==
            try:
                p.compatible_tags
                p.markers()
                p.os_name, p.sys_platform, p.platform_machine
                from dep_logic.specifiers import parse_version_specifier
                from dep_logic.tags import EnvSpec

                spec = EnvSpec(parse_version_specifier(">=3.8"), p, None)
                spec.compatibility(["py3"], ["none"], ["any"])
                spec.compare(EnvSpec(parse_version_specifier(">=3.8"), Platform.parse(text), None))
            except Exception:  # noqa: BLE001  (unsupported combinations are C09's business)
                pass
            bump("platform-roundtrip-after-use")
            roundtrip("after compatible_tags / scoring")
        if ctx.cases % 3 == 0 or getattr(ctx, "force_forms", False):
            call_forms(text, p)
        return p

    def call_forms(text, p):
        """The same name through the other legal ways of passing it: by keyword, as an instance of a str subclass, as
        a (str, Enum) member (the usual type of a CLI choice) - to Platform.parse and to EnvSpec.from_spec."""
        import enum
        import inspect

        from dep_logic.tags import EnvSpec

        class _Str(str):
            pass

        try:
            pname = list(inspect.signature(Platform.parse).parameters)[0]
        except Exception:  # noqa: BLE001
            pname = "platform"
        forms = [("keyword", lambda: Platform.parse(**{pname: text})), ("str-subclass", lambda: Platform.parse(_Str(text))),
                 ("from_spec", lambda: EnvSpec.from_spec(">=3.8", text).platform),
                 ("from_spec/str-subclass", lambda: EnvSpec.from_spec(">=3.8", _Str(text)).platform)]
        try:
            member = enum.Enum("PlatformChoice", {"X": text}, type=str).X
            forms += [("str-enum-member", lambda: Platform.parse(member)),
                      ("from_spec/str-enum-member", lambda: EnvSpec.from_spec(">=3.8", member).platform)]
        except Exception:  # noqa: BLE001
            pass
        for how, call in forms:
            bump("platform-call-form")
            try:
                q = call()
            except Exception as e:  # noqa: BLE001
                violation(PROP, "Platform.parse", f"a documented platform name does not parse when passed as {how} ({type(e).__name__})",
                          {"text": text, "error": str(e)[:120], "group": "call-form/" + how})
                continue
            if q != p or str(q) != str(p):
                violation(PROP, "Platform.parse", f"the name parses to a different platform when passed as {how}",
                          {"text": text, "positional": str(p), how: str(q), "group": "call-form/" + how})

    if only is not None:   # replay of one platform name with every call form
        ctx.force_forms = True
        one(only)
        return
    choices = Platform.choices()
    ctx.extra["platform_choices"] = len(choices)
    for name in choices:
        if "X_Y" in name:
            for X, Y in XY:
                one(name.replace("X", str(X)).replace("Y", str(Y)), (X, Y))
        else:
            one(name)
    for osn in ("manylinux", "musllinux", "macos"):
        for a in ARCH:
            for X, Y in XY:
                one(f"{osn}_{X}_{Y}_{a}", (X, Y))
    for a in ARCH:
        one(f"windows_{a}")
    for alias, target in ALIASES.items():
        pa, pt = one(alias), one(target)
        if pa is not None and pt is not None and (pa != pt or Platform.parse(alias) != pt or pa != Platform.parse(target)):
            violation(PROP, "Platform.parse", "alias does not resolve to its documented target",
                      {"alias": alias, "target": target, "got": str(pa), "group": "alias"})
    if len(ctx.samples) < 8:
        ctx.sample({"platform": "macos_12_34_arm64", "str": str(Platform.parse("macos_12_34_arm64"))})


def _reparse_sample(ctx):
    """Names parsed earlier in the process are parsed again at the end: same outcome (no state between calls)."""
    import dep_logic.tags.tags as T

    for fn, first in ctx.c18_seen[:400]:
        try:
            again = tuple(list(x) for x in T.parse_wheel_tags(fn))
        except T.InvalidWheelFilename:
            again = "InvalidWheelFilename"
        except Exception as e:  # noqa: BLE001
            again = type(e).__name__
        bump("reparse")
        if again != first:
            violation(PROP, "parse_wheel_tags", "parsing the same file name again gives a different outcome",
                      {"filename": fn, "first": first, "second": again, "group": "repeat"})


def run(ctx):
    if ctx.shard == 0:  # the repository's own pinned examples as one more workload (outcomes ignored)
        from ..repotests import run_repo_tests

        run_repo_tests(ctx, ("tags",))
    ctx.c18_seen = []
    _names(ctx, 3000 if ctx.tier == "quick" else 40000)
    _reparse_sample(ctx)
    if ctx.shard == 0:
        _platforms(ctx)
    else:
        bump("platform-roundtrip", 0)
        bump("platform-roundtrip-after-use", 0)
    ctx.current_case = None


def replay(ctx, case):
    if isinstance(case, dict) and case.get("kind") == "repo-test":
        from ..repotests import run_repo_tests

        run_repo_tests(ctx, nodeid=case["nodeid"])
        return
    import dep_logic.tags.tags as T
    from dep_logic.tags import EnvSpec, Platform

    if case["kind"] == "wheel":
        ctx.c18["via"] = True
        try:
            spec = EnvSpec.from_spec(">=3.8", "linux", "cpython")
            _end_to_end(spec, case["filename"], spec.wheel_compatibility(case["filename"]))
        except T.InvalidWheelFilename:
            pass
        except Exception:  # noqa: BLE001
            pass
    else:
        _platforms(ctx, only=case["text"])
