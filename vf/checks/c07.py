"""C07 - marker text round-trip: str() of any result re-parses to an equivalent marker.

Deciding monitors: at every node of the operation trees (results of parse_marker, &, |, only,
exclude, without_extras) the value is rendered; the text must be accepted by parse_marker and by
packaging.markers.Marker, must not contain `<empty>`, and the re-parsed marker must evaluate like
the value on operand-derived critical environments.  Inner monitors on the __str__ of the compound
and group classes apply the same oracle to every rendering the library itself performs
(localises a missing parenthesis).
"""
from __future__ import annotations

from .. import markermon as MM
from ..monitor import install
from ..workloads import markers as MW
from ._marker_common import run_trees

PROP = "C07"
ANCHORS = ['dep_logic.markers.single:MarkerExpression.__str__', 'dep_logic.markers.single:EqualityMarkerUnion.__str__', 'dep_logic.markers.single:InequalityMultiMarker.__str__', 'dep_logic.markers.multi:MultiMarker.__str__', 'dep_logic.markers.union:MarkerUnion.__str__', 'dep_logic.markers:parse_marker', 'dep_logic.markers:_build_markers']
RULE = ("Operation trees as in C15 (parse, &, |, only, exclude, without_extras, re-parsed renderings as operands; "
        "small-scope strata). Every node value is rendered and re-parsed; every __str__ call of MultiMarker / "
        "MarkerUnion / the two group classes made anywhere is checked the same way (sampled 1 in 4 for nested "
        "calls). One evaluation = one environment decided. Non-trivial/distinct: result texts containing a "
        "parenthesis or a grouped ==/!= atom."
        " Size strata: order twins behind self-combined ballast, compounds with 33-70 children, heavy term products.")
ASSUMPTIONS = [
    "equivalence of the re-parsed marker is decided by evaluate() on sampled critical environments (final releases)",
    "the F5 / F12 strata are excluded here (their atoms are C02/C03's subject); reversed comparison atoms are included; "
    "literal-on-the-left in/not in atoms form a separate stratum (each case rendered after its orientation twin)",
]
MIN_EVENTS = {"roundtrip": 3000, "MultiMarker.__str__": 300, "MarkerUnion.__str__": 300}
MIN_SHAPES = {"text:parenthesised": 100, "text:group-atom": 20, "text:reversed-atom": 50}
SHARDS = {"quick": 4, "thorough": 16}


def setup(ctx):
    MM.prepare(ctx)
    M, single = MM.classes()

    def post_str(name):
        def post(args, kwargs, r):
            m = args[0]
            if ctx.rnd.random() < 0.75:
                return
            MM.marker_roundtrip_check(ctx, PROP, name, m, origin="inner __str__", cap=12)
        return post

    for cls in (M.MultiMarker, M.MarkerUnion, single.EqualityMarkerUnion, single.InequalityMultiMarker):
        install(cls, "__str__", post_str(cls.__name__ + ".__str__"))


def _run_tree(ctx):
    M, single = MM.classes()

    def on_node(t, v, kids):
        if not MM.is_marker(v):
            return
        MM.marker_roundtrip_check(ctx, PROP, "roundtrip", v, origin=MW.tree_text(t)[:400],
                                  cap=40 if ctx.tier == "quick" else 80)
        text = MM.mtext(v)
        if "(" in text:
            ctx.shape("text:parenthesised")
        atoms = MW.walk_atoms(v)
        if any(isinstance(a, (single.EqualityMarkerUnion, single.InequalityMultiMarker)) for a in atoms):
            ctx.shape("text:group-atom")
        if any(getattr(a, "reversed", False) for a in atoms):
            ctx.shape("text:reversed-atom")
        if len(ctx.samples) < 5 and "(" in text and ctx.cases % 61 == 3:
            ctx.sample({"tree": MW.tree_text(t)[:300], "text": text})

    def run_tree(tree):
        ctx.cases += 1
        ctx.current_case = {"kind": "mtree", "tree": tree, "stratum": ctx.stratum}
        # str() of a node value is workload here: let the inner __str__ monitors see it
        MM.eval_marker_tree(ctx, tree, on_node, prop=PROP, watchdog=5.0 if ctx.tier == "quick" else 20.0)
        root = None
    return run_tree


def _twin(text: str) -> str:
    """The same text with every string-variable in/not in atom written the other way round
    (`"lit" in var` <-> `var in "lit"`): equal under the library's ==, different in meaning."""
    import re

    def fwd(m):
        return f'{m.group(3)} {m.group(2)} {m.group(1)}'

    def rev(m):
        return f'{m.group(3)} {m.group(2)} {m.group(1)}'

    t = re.sub(r'("[^"]*")\s+(not in|in)\s+((?:os_name|sys_platform|platform_machine|platform_system|implementation_name|platform_python_implementation))',
               lambda m: "\x00" + fwd(m), text)
    t = re.sub(r'(?<!\x00)((?:os_name|sys_platform|platform_machine|platform_system|implementation_name|platform_python_implementation))\s+(not in|in)\s+("[^"]*")',
               rev, t)
    return t.replace("\x00", "")


def _revin(ctx):
    """Literal-on-the-left in/not in atoms: every case is rendered after its orientation twin has
    been rendered in the same process (caches known to the harness are cleared in between), so a
    rendering that is shared between the two equal-but-different markers is observed."""
    ctx.stratum = "revin"
    rnd = ctx.rnd
    cfg = MW.Cfg(rev_in=True, few_vars=["sys_platform", "os_name"], extras=False, release=False)
    run_tree = _run_tree(ctx)
    n = 120 if ctx.tier == "quick" else 1500
    t0 = ctx.elapsed()
    for _ in range(n):
        if ctx.elapsed() - t0 > (15 if ctx.tier == "quick" else 60):
            break
        a, b = MW.gen_pair(rnd, cfg, 5, depth=1)
        if '" in ' not in a + b and '" not in ' not in a + b:
            continue
        op = rnd.choice(["and", "or"])
        twin = [op, ["m", _twin(a)], ["m", _twin(b)]]
        tree = [op, ["m", a], ["m", b]]
        for t in (twin, tree):
            MM.clear_caches()
            run_tree(t)
            ctx.shape("stratum:revin")
    MM.clear_caches()
    ctx.stratum = "main"


def run(ctx):
    run_trees(ctx, _run_tree(ctx), n_random=900 if ctx.tier == "quick" else 20000, max_atoms=7 if ctx.tier == "quick" else 9,
              small_frac=0.5 if ctx.tier == "quick" else 1.0)
    _revin(ctx)
    # pre / post / dev release literals (final-release environments)
    ctx.stratum = "prelit"
    MM.clear_caches()
    rnd = ctx.rnd
    cfg = MW.Cfg(prelit=True, extras=False, few_vars=["os_name"])
    run_tree = _run_tree(ctx)
    t0 = ctx.elapsed()
    for _ in range(150 if ctx.tier == "quick" else 2500):
        if ctx.elapsed() - t0 > (15 if ctx.tier == "quick" else 60):
            break
        run_tree(MM.gen_marker_tree(rnd, cfg, 5))
    MM.clear_caches()
    ctx.stratum = "main"


def replay(ctx, case):
    MM.clear_caches()
    ctx.stratum = case.get("stratum", "main")
    if ctx.stratum == "revin" and case["tree"][0] in ("and", "or") and case["tree"][1][0] == "m" and case["tree"][2][0] == "m":
        t = case["tree"]
        _run_tree(ctx)([t[0], ["m", _twin(t[1][1])], ["m", _twin(t[2][1])]])  # the orientation twin first
        MM.clear_caches()
    _run_tree(ctx)(case["tree"])
