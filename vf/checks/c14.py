"""C14 - Boolean-algebra laws.

Specifiers: 15 law instances per triple, decided by == of the returned objects (no external
reference - this is the check that also guards the reference models of C01/C02).
Markers (no ~): the same laws up to equivalence, decided by evaluation vectors over
operand-derived critical environments.
"""
from __future__ import annotations

from ..models import intervals as iv
from ..monitor import bump, oracle, violation
from ..workloads import specs as W
from ._spec_common import BUDGET, eval_tree, small_scope_triples, spec_laws

PROP = "C14"
ANCHORS = ['dep_logic.specifiers.range:RangeSpecifier.__and__', 'dep_logic.specifiers.range:RangeSpecifier.__or__', 'dep_logic.specifiers.range:RangeSpecifier.__invert__', 'dep_logic.specifiers.union:UnionSpecifier.__and__', 'dep_logic.specifiers.union:UnionSpecifier.__or__', 'dep_logic.specifiers.union:UnionSpecifier.__invert__', 'dep_logic.markers.multi:MultiMarker.of', 'dep_logic.markers.union:MarkerUnion.of', 'dep_logic.utils:union', 'dep_logic.utils:intersection']
RULE = ("Specifier triples (a, b, c): values of three expression trees over one version pool (so that operands "
        "interact), 15 law instances each: commutativity x2, associativity x2, idempotence x2, absorption x2, "
        "distributivity x2, involution, De Morgan x2, complements x2, compared with ==. Marker triples: three "
        "markers over one or two variables (size-bounded), 12 law instances without ~, compared by evaluation "
        "vectors over critical environments. Non-trivial/distinct: triples whose members are pairwise different "
        "and none empty/universal."
        " Structured marker triples: a conjunction/group, its operand-order twin and a flat union over 9-12 further atoms under the cheap laws.")
ASSUMPTIONS = [
    "specifier laws are demanded as equalities of returned objects (==), marker laws as equal evaluation vectors",
    "marker environments are sampled from operand-derived critical values (final-release interpreters)",
]
MIN_EVENTS = {"spec-law": 3000, "marker-law": 300}
MIN_SHAPES = {}
SHARDS = {"quick": 4, "thorough": 16}


def setup(ctx):
    from .. import markermon

    markermon.prepare(ctx)


def _spec_case(ctx):
    import dep_logic.specifiers as S

    def per_case(trees, pool, given=None):
        vals = []
        if given is not None:
            vals, texts = list(given[0]), list(given[1])
        else:
            for t in trees:
                root, _ = eval_tree(ctx, t, prop=PROP)
                if root is None or not iv.readable(root):
                    return
                vals.append(root)
            texts = [W.tree_text(t)[:160] for t in trees]
        a, b, c = vals
        nontriv = all(not (x.is_empty() or x.is_any()) for x in vals) and len({iv.describe(x) for x in vals}) == 3
        if nontriv:
            ctx.nontrivial("spec", *[iv.describe(x) for x in vals])
            if len(ctx.samples) < 4:
                ctx.sample({"kind": "specifier-triple", "a": texts[0], "b": texts[1], "c": texts[2]})
        for name, lf, rf in spec_laws(a, b, c):
            ctx.evaluations += 1
            bump("spec-law")
            try:
                lhs = lf()
                if rf is None:
                    ok = lhs.is_empty() and lhs == S.EmptySpecifier() if name == "complement-and" else (
                        lhs.is_any() and lhs == S.AnySpecifier() and lhs == S.RangeSpecifier())
                    rhs = S.EmptySpecifier() if name == "complement-and" else S.AnySpecifier()
                else:
                    rhs = rf()
                    ok = bool(lhs == rhs) and bool(rhs == lhs)
            except Exception as e:  # noqa: BLE001
                violation(PROP, "spec-law", f"law {name}: raised {type(e).__name__}",
                          {"a": texts[0], "b": texts[1], "c": texts[2], "error": str(e)[:160], "group": name})
                continue
            if not ok:
                violation(PROP, "spec-law", f"law {name}: the two sides are not equal",
                          {"a": iv.describe(a), "b": iv.describe(b), "c": iv.describe(c), "lhs": iv.describe(lhs),
                           "rhs": iv.describe(rhs), "group": name}, live={"lhs": lhs, "rhs": rhs})
    return per_case


def run(ctx):
    from .. import markermon

    n, secs = BUDGET[ctx.tier]
    n = int(n * 0.5)
    rnd = ctx.rnd
    per = _spec_case(ctx)
    for i in range(n):
        if ctx.elapsed() > secs * 0.5:
            break
        big = rnd.random() < 0.2  # some triples over a large pool: unions of 9-16 ranges as operands
        pool = W.version_pool(rnd, rnd.randint(28, 40) if big else rnd.randint(4, 10))
        trees = [W.gen_tree(rnd, pool, rnd.randint(0, 2), hostile_p=0.6 if big else 0.3) for _ in range(3)]
        if sum(map(W.tree_size, trees)) > 30:
            continue
        ctx.cases += 1
        ctx.current_case = {"kind": "spec-triple", "trees": trees}
        ctx.guarded(10.0, per, trees, pool)
    ctx.current_case = None
    small_scope_triples(ctx, lambda objs, texts: per(None, None, (objs, texts)))
    markermon.run_marker_laws(ctx, PROP)


def replay(ctx, case):
    from .. import markermon

    if case["kind"] == "spec-triple":
        _spec_case(ctx)(case["trees"], None)
    elif case["kind"] == "small-triple":
        # the stratum shares leaf objects across triples: replay the whole stratum of this shard
        per = _spec_case(ctx)
        small_scope_triples(ctx, lambda objs, texts: per(None, None, (objs, texts)))
    else:
        markermon.replay_marker_law(ctx, PROP, case)
