"""C19 - string-atom specifier algebra is exact wherever it is defined.

Deciding monitors: post-conditions on GenericSpecifier.__and__/__or__/__invert__ comparing exact
truth tables (a candidate's membership depends only on `c == lit` and `c in lit`, so all
substrings of both literals, the literals and one foreign string are a complete candidate set).
Workload: exhaustive over {==, !=, in, not in}^2 x a literal pool closed under the relations the
case table inspects, plus the same calls as issued by the marker layer (the real consumer).
"""
from __future__ import annotations

import itertools

from ..monitor import bump, install, violation

PROP = "C19"
ANCHORS = ['dep_logic.specifiers.generic:GenericSpecifier.__and__', 'dep_logic.specifiers.generic:GenericSpecifier.__or__', 'dep_logic.specifiers.generic:GenericSpecifier.__invert__', 'dep_logic.specifiers.generic:GenericSpecifier.__contains__']
RULE = ("Exhaustive: all ordered pairs of (operator, literal) with operators ==, !=, in, not in and literals from "
        "{'', a, b, ab, ba, abc, bc, linux, linux2, lin, win32, x, 1.0, 1.0.0, 1, 10.0, 9.0, 1.*} (closed under equal / "
        "substring / superstring / disjoint / empty, plus version-looking spelling twins), for & and |, plus ~ of every specifier; the same pairs again through parse_marker on "
        "'v op lit and/or v op lit' so that the calls come from the marker layer. One evaluation = one candidate "
        "string decided. Non-trivial/distinct: (operation, op1, lit1, op2, lit2) whose operands differ.")
ASSUMPTIONS = [
    "membership is observed through the real __contains__ of GenericSpecifier / EmptySpecifier / AnySpecifier",
    "NotImplementedError is an allowed outcome (the statement says: either raise it or be exact)",
]
LEVEL = "exploration"
EXHAUSTIVE_NOTE = "the (operator, literal) pair pool is enumerated completely (exhaustive over that finite pool)"
MIN_EVENTS = {"GenericSpecifier.__and__": 1000, "GenericSpecifier.__or__": 1000, "GenericSpecifier.__invert__": 40,
              "via-marker-layer": 500}
MIN_SHAPES = {"and:returned": 100, "or:returned": 100, "and:NotImplementedError": 50, "or:NotImplementedError": 50}
SHARDS = {"quick": 1, "thorough": 2}
OPS = ["==", "!=", "in", "not in"]
LITS = ["", "a", "b", "ab", "ba", "abc", "bc", "linux", "linux2", "lin", "win32", "x",
        # literals that look like versions: different strings that are the same PEP 440 version, and
        # strings whose lexicographic and version order differ - string atoms must stay string atoms
        "1.0", "1.0.0", "1", "10.0", "9.0", "1.*"]
FOREIGN = "§zz"


def _cands(*lits):
    out = {FOREIGN}
    for l in lits:
        out.add(l)
        out.add(l + "~")
        for i in range(len(l) + 1):
            for j in range(i, len(l) + 1):
                out.add(l[i:j])
    return sorted(out)


class _S(str):
    """A plain str subclass."""


_ENUM_CACHE: dict = {}


def _forms(c, rich):
    """The candidate as a plain str and - for the few `rich` candidates of a call - as an instance of a str subclass
    and as a (str, Enum) member whose value it is (its str() is `Name.X`, its content is the candidate)."""
    yield c
    if rich:
        yield _S(c)
        if c not in _ENUM_CACHE:
            import enum

            try:
                _ENUM_CACHE[c] = enum.Enum("Plat", {"X": c}, type=str).X
            except Exception:  # noqa: BLE001
                _ENUM_CACHE[c] = None
        if _ENUM_CACHE[c] is not None:
            yield _ENUM_CACHE[c]


def _truth(spec, c) -> bool:
    """Independent reading of a string specifier on the CONTENT of a candidate (plain-str semantics)."""
    c = str.__str__(c) if type(c) is str else str.__getitem__(c, slice(None))
    v = spec.value
    return {"==": c == v, "!=": c != v, "in": c in v, "not in": c not in v}[spec.op]


def setup(ctx):
    import dep_logic.specifiers as S

    G = S.GenericSpecifier

    def post_bin(name, comb):
        def post(args, kwargs, r):
            a, b = args[0], args[1]
            if not (isinstance(a, G) and isinstance(b, G)) or a.op not in OPS or b.op not in OPS:
                return
            ctx.shape(f"{name}:returned")
            if a != b:
                ctx.nontrivial(name, a.op, a.value, b.op, b.value)
            ctx.shape(f"branch:{name}:{min(a.op, b.op, key=OPS.index)}/{max(a.op, b.op, key=OPS.index)}")
            for c0 in _cands(a.value, b.value):
              for c in _forms(c0, c0 in (a.value, b.value, FOREIGN, "")):
                ctx.evaluations += 1
                try:
                    got = c in r
                    ina, inb = c in a, c in b
                except Exception as e:  # noqa: BLE001
                    violation(PROP, f"GenericSpecifier.{name}", f"membership in the result raised {type(e).__name__}",
                              {"a": str(a), "b": str(b), "result": repr(r), "candidate_type": type(c).__name__})
                    return
                exp = comb(_truth(a, c), _truth(b, c))
                if (ina, inb) != (_truth(a, c), _truth(b, c)):
                    violation(PROP, "GenericSpecifier.__contains__", "membership in an operand differs from the plain reading "
                              "of its operator on the candidate's content",
                              {"a": str(a), "b": str(b), "candidate": str.__getitem__(c, slice(None)), "candidate_type": type(c).__name__,
                               "in_a": ina, "in_b": inb, "group": "contains/" + type(c).__name__})
                    return
                if got != exp:
                    violation(PROP, f"GenericSpecifier.{name}", f"{name} of two string specifiers is not exact",
                              {"a": str(a), "b": str(b), "result": repr(r), "candidate": str.__getitem__(c, slice(None)),
                               "candidate_type": type(c).__name__, "got": got, "expected": exp, "group": f"{a.op}/{b.op}"})
                    return
        return post

    def on_exc(name):
        def h(args, kwargs, exc):
            if isinstance(exc, NotImplementedError):
                ctx.shape(f"{name}:NotImplementedError")
            else:
                a, b = args[0], args[1]
                violation(PROP, f"GenericSpecifier.{name}", f"raised {type(exc).__name__} (only NotImplementedError is allowed)",
                          {"a": str(a), "b": str(b), "error": str(exc)[:120]})
        return h

    def post_inv(args, kwargs, r):
        a = args[0]
        if a.op not in OPS:
            return
        for c in _cands(a.value):
            ctx.evaluations += 1
            if (c in r) != (not (c in a)):
                violation(PROP, "GenericSpecifier.__invert__", "~ is not the complement",
                          {"a": str(a), "result": repr(r), "candidate": c})
                return

    install(G, "__and__", post_bin("and", lambda x, y: x and y), on_exc=on_exc("and"))
    install(G, "__or__", post_bin("or", lambda x, y: x or y), on_exc=on_exc("or"))
    install(G, "__invert__", post_inv)


def run(ctx):
    if ctx.shard == 0:  # the repository's own pinned examples as one more workload (outcomes ignored)
        from ..repotests import run_repo_tests

        run_repo_tests(ctx, ("marker",))
    import dep_logic.specifiers as S
    from dep_logic.markers import parse_marker

    G = S.GenericSpecifier
    specs = [G(op, lit) for op in OPS for lit in LITS]
    for a, b in itertools.product(specs, repeat=2):
        ctx.cases += 1
        ctx.current_case = {"kind": "pair", "a": [a.op, a.value], "b": [b.op, b.value]}
        for fn in (lambda: a & b, lambda: a | b):
            try:
                fn()
            except NotImplementedError:
                pass
            except Exception:  # noqa: BLE001  (reported by on_exc)
                pass
    for a in specs:
        ~a
    # operands that were built in ANOTHER interpreter (different hash seed) and arrived by pickle, combined with
    # locally built ones: the case tables compare operands with == and use them as keys
    if ctx.shard == 0:
        from ..foreign import foreign_objects

        far = foreign_objects([f"GenericSpecifier({op!r}, {lit!r})" for op in OPS for lit in LITS])
        got = [f for f in far if f is not None]
        ctx.extra["foreign_operands"] = len(got)
        if len(got) < len(far):
            ctx.inconclusive["foreign-operand-unavailable"] += len(far) - len(got)
        for f, b in itertools.product(got, specs):
            if ctx.tier == "quick" and (hash((f.op, f.value, b.op, b.value)) + ctx.seed) % 2:
                continue
            ctx.cases += 1
            ctx.current_case = {"kind": "foreign-pair", "a": [f.op, f.value], "b": [b.op, b.value]}
            for fn in (lambda: f & b, lambda: b & f, lambda: f | b, lambda: b | f):
                try:
                    fn()
                except NotImplementedError:
                    pass
                except Exception:  # noqa: BLE001
                    pass
        for f in got:
            ~f
        ctx.shape("foreign-operands", len(got))
    # "injection" literals: a literal that looks like the tail of one rendered specifier and the head of another
    # (`a" & in "a`): hostile for anything that keys on concatenated renderings
    base = ["a", "ab"]
    inj = [f'{x}" {sym} {op} "{y}' for sym in ("&", "|") for op in OPS for x in base for y in base]
    ispecs = [G(op, lit) for op in OPS for lit in base + inj]
    pairs = list(itertools.product(range(len(ispecs)), repeat=2))
    if ctx.tier == "quick":
        pairs = [p for k, p in enumerate(pairs) if (k + ctx.seed) % 3 == 0]
    for order in (pairs, list(reversed(pairs))):
        for i, j in order:
            x, y = ispecs[i], ispecs[j]
            ctx.cases += 1
            ctx.current_case = {"kind": "pair", "a": [x.op, x.value], "b": [y.op, y.value]}
            for fn in (lambda: x & y, lambda: x | y):
                try:
                    fn()
                except NotImplementedError:
                    pass
                except Exception:  # noqa: BLE001
                    pass
    ctx.shape("injection-literals", len(inj))
    if len(ctx.samples) < 3:
        ctx.sample({"a": 'in "linux2"', "b": '== "linux"', "and": repr(G("in", "linux2") & G("==", "linux"))})
        ctx.sample({"a": '!= "a"', "b": 'not in "ab"', "or": repr(G("!=", "a") | G("not in", "ab"))})
    # the same pairs as issued by the marker layer
    before = sum(ctx.shapes[k] for k in ("and:returned", "or:returned", "and:NotImplementedError", "or:NotImplementedError"))
    lits = LITS if ctx.tier == "thorough" else LITS[:6] + LITS[12:15]
    for (o1, l1), (o2, l2) in itertools.product([(o, l) for o in OPS for l in lits], repeat=2):
        for glue in ("and", "or"):
            text = f'sys_platform {o1} "{l1}" {glue} sys_platform {o2} "{l2}"'
            ctx.cases += 1
            ctx.current_case = {"kind": "marker", "text": text}
            try:
                parse_marker(text)
            except Exception:  # noqa: BLE001  (marker-level failures belong to C02/C03)
                pass
    after = sum(ctx.shapes[k] for k in ("and:returned", "or:returned", "and:NotImplementedError", "or:NotImplementedError"))
    bump("via-marker-layer", after - before)
    ctx.current_case = None


def replay(ctx, case):
    if isinstance(case, dict) and case.get("kind") == "repo-test":
        from ..repotests import run_repo_tests

        run_repo_tests(ctx, nodeid=case["nodeid"])
        return
    import dep_logic.specifiers as S
    from dep_logic.markers import parse_marker

    if case["kind"] == "marker":
        parse_marker.cache_clear()
        try:
            parse_marker(case["text"])
        except Exception:  # noqa: BLE001
            pass
        return
    a, b = S.GenericSpecifier(*case["a"]), S.GenericSpecifier(*case["b"])
    if case["kind"] == "foreign-pair":
        from ..foreign import foreign_objects

        far = foreign_objects([f"GenericSpecifier({case['a'][0]!r}, {case['a'][1]!r})"])
        if far[0] is None:
            raise SystemExit("INCONCLUSIVE reason=the foreign interpreter did not deliver the operand")
        a = far[0]
    for fn in (lambda: a & b, lambda: b & a, lambda: a | b, lambda: b | a, lambda: ~a, lambda: ~b):
        try:
            fn()
        except NotImplementedError:
            pass
