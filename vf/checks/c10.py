"""C10 - memoisation is transparent: results do not depend on what was computed before.

Deciding monitors: (online) a wrapper around the four lru_caches (parse_marker,
_merge_single_markers, cnf, dnf) detects cache *hits* and compares the returned value (class, text,
evaluation vector) with fn.__wrapped__(*args) computed at that moment for the very same argument
objects; (offline) a functional-consistency checker over the recorded history: every operation
(kind, operand texts) must yield the same text and the same evaluation vector at every position of
a history, in K permutations of it, with cold caches, and in a fresh interpreter.
"""
from __future__ import annotations

import json
import os
import subprocess
import sys

from .. import markermon as MM
from ..boot import VERIF
from ..monitor import CaseTimeout, STATE, bump, oracle, violation
from ..workloads import markers as MW
from ..coldprobe import describe, run_op

PROP = "C10"
ANCHORS = ['dep_logic.markers:parse_marker', 'dep_logic.markers.single:_merge_single_markers', 'dep_logic.utils:cnf', 'dep_logic.utils:dnf', 'dep_logic.markers.single:MarkerExpression.from_specifier']
RULE = ("Histories of 40-120 operations (parse / & / |) over a small atom alphabet (8-14 atoms on 1-3 variables) so "
        "that equal keys recur, deliberately containing equal-but-differently-built markers: literal on the left vs "
        "right for comparison operators, '3.10' vs '3.10.0', grouped ==/!= atoms in both orders, results re-rendered by "
        "the library and re-parsed. Each history is run warm, in K permutations (K=3 quick / 8 thorough), with caches "
        "cleared before every single operation (cold), and a sample of operations in a fresh interpreter. One "
        "evaluation = one (operation, position) compared with its cold result. Non-trivial/distinct: operations observed "
        "both cold and warm with at least one cache hit underneath.")
ASSUMPTIONS = [
    "the operation is identified by its kind and operand texts; environments for the vectors come from the history's alphabet",
    "literal-on-the-left in/not in atoms are excluded here: their equality defect is finding F4 (C02/C03/C13)",
    "in-process cold = the four lru_caches cleared; true cold = fresh interpreter with the same PYTHONHASHSEED (sampled)",
]
MIN_EVENTS = {"cache-hit-checked": 300, "position-vs-cold": 2000, "fresh-interpreter": 8}
MIN_SHAPES = {"hit:parse_marker": 50, "hit:_merge_single_markers": 50, "hit:cnf": 20, "hit:dnf": 20}
SHARDS = {"quick": 4, "thorough": 16}


def _caches():
    import dep_logic.markers as M
    import dep_logic.markers.single as single
    import dep_logic.utils as U

    return [(M, "parse_marker"), (single, "_merge_single_markers"), (U, "cnf"), (U, "dnf")]


def shape_of(x, envs):
    if x is None:
        return None
    if not MM.is_marker(x):
        return ("non-marker", repr(x))
    d = describe(x, envs)
    return (d["type"], d["text"], tuple(d["vec"]))


def _lib_equal(a, b) -> bool:
    """The library's own equality (a dataclass comparison: touches no cache)."""
    try:
        return bool(a == b) and bool(b == a)
    except Exception:  # noqa: BLE001
        return False


_ATOM = __import__("re").compile(r'(?:([a-z_.]+)\s*(==|!=|<=|>=|<|>|~=|not in|in)\s*"([^"]*)"|"([^"]*)"\s*(==|!=|<=|>=|<|>|~=|not in|in)\s*([a-z_.]+))')
_REFLECT = {"<": ">", "<=": ">=", ">": "<", ">=": "<=", "==": "==", "!=": "!=", "~=": "~="}


def _canon_text(text: str):
    """(skeleton, sorted atoms) of a rendered marker, with comparison atoms written variable-first.
    Two renderings with equal canon differ only in the operand order of comparison atoms and in
    the order in which atoms are listed - what the library's own == ignores (F17)."""
    atoms = []

    def repl(m):
        if m.group(1):
            atoms.append((m.group(1), m.group(2), m.group(3)))
        elif m.group(5) in _REFLECT:
            atoms.append((m.group(6), _REFLECT[m.group(5)], m.group(4)))
        else:  # literal-on-the-left in / not in: orientation is meaning, keep it
            atoms.append(("\"" + m.group(4) + "\"", m.group(5), m.group(6)))
        return "A"

    skeleton = _ATOM.sub(repl, text)
    return skeleton, tuple(sorted(atoms))


def _text_equal(out, warm_shape, op, envs) -> bool:
    return _canon_text(out.get("text", "")) == _canon_text(warm_shape[1])


def setup(ctx):
    MM.prepare(ctx)
    ctx.c10_envs = []
    ctx.c10_hits = 0

    def spy(mod, name):
        cached = getattr(mod, name)
        if not (hasattr(cached, "cache_info") and hasattr(cached, "__wrapped__")):
            ctx.shape(f"spy-unavailable:{name} (not an lru_cache any more)")
            return
        raw = cached.__wrapped__
        counter = [0]

        def w(*args):
            if STATE.depth:
                return cached(*args)
            before = cached.cache_info().hits
            r = cached(*args)
            if cached.cache_info().hits > before:
                ctx.shape(f"hit:{name}")
                ctx.c10_hits += 1
                counter[0] += 1
                # sample: first 40 hits of each cache, then every 7th
                if counter[0] <= 40 or counter[0] % 7 == 0:
                    STATE.depth += 1
                    try:
                        bump("cache-hit-checked")
                        fresh = raw(*args)
                        a, b = shape_of(r, ctx.c10_envs), shape_of(fresh, ctx.c10_envs)
                        ctx.evaluations += 1
                        if a != b:
                            sem = (a is None) != (b is None) or (a and b and (a[0] == "non-marker" or a[2] != b[2]))
                            violation(PROP, f"{name} (cache hit)",
                                      "a cache hit returns a value that differs from recomputing it now"
                                      + (" (meaning)" if sem else " (text/class)"),
                                      {"args": [MM.mtext(x) if MM.is_marker(x) else getattr(x, "__name__", repr(x)) for x in args],
                                       "cached": list(a[:2]) if a else None, "recomputed": list(b[:2]) if b else None,
                                       "semantic": bool(sem), "group": f"{name}/{'meaning' if sem else 'text'}"},
                                      live={"semantic": bool(sem), "lib_equal": _lib_equal(r, fresh),
                                            "same_type": type(r) is type(fresh)})
                    except CaseTimeout:
                        raise
                    except Exception:  # noqa: BLE001
                        STATE.errors[f"{name} (cache hit)"] += 1
                    finally:
                        STATE.depth -= 1
            else:
                ctx.shape(f"miss:{name}")
            return r

        w.cache_clear = cached.cache_clear
        w.cache_info = cached.cache_info
        w.__wrapped__ = raw
        setattr(mod, name, w)
        STATE.counts.setdefault("cache-hit-checked", 0)

    for mod, name in _caches():
        spy(mod, name)


def _huge_alphabet(rnd):
    """A handful of small markers plus one group of 1 000-1 300 values (a single operation over it touches more
    than a thousand atoms): whatever such an operation leaves behind must not show in the small operations."""
    var = rnd.choice(["sys_platform", "platform_machine"])
    n = rnd.choice([1030, 1100, 1300])
    big = " or ".join(f'{var} == "plat{i}"' for i in range(n))
    small = ['os_name != "a"', 'os_name == "b" and python_version >= "3.9" and python_version < "3.11"', 'os_name == "b"',
             'python_version >= "3.9"', f'{var} == "plat1"', f'{var} != "plat2"', 'os_name == "a" or python_version < "3.9"']
    rnd.shuffle(small)
    return [big] + small[:rnd.randint(3, 5)]


def _failing_history(rnd):
    """Operations that FAIL (a version-like variable compared with a literal that is no version: the merge raises
    InvalidSpecifier - on any tree) in between operations that need the nested simplifiers (factorisation).  An
    operation that raised must leave nothing behind either."""
    fail = ['sys_platform == "linux" and platform_release >= "5.1.0-generic" or sys_platform == "linux" and platform_release >= "6.1.0-generic"',
            'platform_release >= "5.1.0-generic" and platform_release < "6.1.0-generic"',
            'os_name == "a" and platform_release == "5.1-x" or os_name == "a" and platform_release != "5.2-y"',
            'os_name == "nt" and platform_release > "10.0-rtm" or os_name == "nt" and platform_release > "11.0-rtm"']
    probes = ['os_name == "nt" and python_version < "3.8" or os_name == "nt" and python_version >= "3.8"',
              '(os_name == "nt" or sys_platform == "x") and (os_name == "nt" or sys_platform == "y")',
              'os_name == "a" and sys_platform == "x" or os_name == "a" and sys_platform == "y" or os_name == "b"',
              'python_version >= "3.8" and os_name == "a" or python_version >= "3.8" and os_name != "a"']
    small = ['os_name == "nt"', 'python_version >= "3.8"', 'sys_platform == "x"']
    ops = [["parse", p] for p in probes] + [["or", probes[0], small[2]], ["and", probes[1], small[1]]]
    for i in range(rnd.randint(24, 40)):
        f = rnd.choice(fail)
        ops.append(rnd.choice([["parse", f], ["and", f, rnd.choice(small)], ["or", rnd.choice(small), f]]))
        if i % 8 == 7:
            ops.append(["parse", rnd.choice(probes)])
    ops += [["parse", p] for p in probes] + [["or", probes[0], small[2]], ["and", probes[1], small[1]],
                                              ["or", probes[2], probes[3]], ["and", probes[0], probes[2]]]
    return fail + probes + small, ops


def _alphabet(rnd, kind=None):
    k = rnd.random() if kind is None else {"pyin": 0.0, "python": 0.3, "string": 0.6, "mixed": 0.9}[kind]
    atoms = []
    if k < 0.15:
        # the same comma list as operand of in / not in on different version-valued variables
        lst = rnd.choice(["3.8, 3.9", "3.8,3.9", "3.9, 3.10", "3.8"])
        atoms = [f'python_version in "{lst}"', f'python_version not in "{lst}"', f'python_full_version in "{lst}"',
                 f'python_full_version not in "{lst}"', f'platform_release in "{lst}"', f'platform_release not in "{lst}"',
                 'python_full_version >= "3.9.2"', 'python_full_version < "3.9"', 'python_version >= "3.9"',
                 'python_version < "3.10"', 'platform_release >= "3.9"', 'platform_release < "4.0"']
        return atoms
    if k < 0.45:
        var = rnd.choice(["python_version", "python_full_version"])
        other = "python_full_version" if var == "python_version" else "python_version"
        vals = rnd.sample(["3.7", "3.8", "3.9", "3.10"], 3)
        for v in vals:
            op = rnd.choice(["<", "<=", ">", ">=", "==", "!="])
            atoms.append(f'{var} {op} "{v}"')
            rop = {"<": ">", "<=": ">=", ">": "<", ">=": "<=", "==": "==", "!=": "!="}[op]
            atoms.append(f'"{v}" {rop} {var}')  # the same atom, literal on the left
        atoms.append(f'{other} >= "3.8"')
        atoms.append(f'python_full_version >= "3.10"')
        atoms.append(f'python_full_version >= "3.10.0"')
        atoms.append(f'python_version ~= "3.8"')
    elif k < 0.8:
        var = rnd.choice(MW.STRVARS)
        lits = rnd.sample(["a", "b", "c", "ab"], 3)
        for l in lits:
            atoms.append(f'{var} == "{l}"')
            atoms.append(f'"{l}" == {var}')
            atoms.append(f'{var} != "{l}"')
        atoms.append(f'{var} == "{lits[0]}" or {var} == "{lits[1]}"')
        atoms.append(f'{var} == "{lits[1]}" or {var} == "{lits[0]}"')
        atoms.append(f'{var} != "{lits[0]}" and {var} != "{lits[1]}"')
        atoms.append(f'{var} != "{lits[1]}" and {var} != "{lits[0]}"')
        atoms.append(f'{var} in "{lits[0]}{lits[1]}"')
        atoms.append('python_version >= "3.8"')
    else:
        atoms = ['extra == "a"', '"a" == extra', 'extra != "b"', 'extra == "Foo_Bar"', 'extra == "foo-bar"',
                 'os_name == "nt"', '"nt" == os_name', 'os_name != "nt"', 'python_version < "3.8"', '"3.8" > python_version',
                 'python_version >= "3.8"', 'sys_platform == "linux"']
    # spelling variants of the *text* (whitespace, quote style, literal case): distinct cache keys that must not collide
    base = rnd.sample(atoms, 2)
    for t in base:
        atoms.append(t.replace(" == ", "==").replace(" >= ", ">=").replace(" != ", "!="))
        atoms.append(" " + t + "  ")
        atoms.append(t.replace('"', "'"))
    # literals that contain the *other* quote character, marker keywords or blanks: texts that become equal under a
    # plausible-but-wrong normalisation of the cache key (quote style, whitespace) although they are different markers
    if rnd.random() < 0.6:
        atoms.append("""os_name == "a' or os_name == 'b" """.strip())
        atoms.append("""os_name == 'a' or os_name == "b" """.strip())
        atoms.append("""sys_platform == "x  y" """.strip())
        atoms.append("""sys_platform == "x y" """.strip())
        atoms.append("""os_name == 'a" and os_name != "b' """.strip())
        atoms.append("""os_name == "a" and os_name != "b" """.strip())
    up = [t for t in atoms if t.startswith(("os_name ==", "sys_platform ==", "platform_machine ==", "platform_system ==",
                                            "implementation_name ==", "platform_python_implementation =="))]
    if up:
        t = rnd.choice(up)
        head, lit = t.split(' == ', 1)
        atoms.append(f"{head} == {lit.upper()}")
    return atoms


def _history(rnd, atoms, n):
    ops = []
    for _ in range(n):
        k = rnd.random()
        if k < 0.25:
            if rnd.random() < 0.5:
                ops.append(["parse", rnd.choice(atoms)])
            else:
                glue = rnd.choice([" and ", " or "])
                ops.append(["parse", glue.join(rnd.sample(atoms, rnd.randint(2, 3)))])
        else:
            a = rnd.choice(atoms)
            b = rnd.choice(atoms)
            if rnd.random() < 0.3:
                a = f"({a}) {rnd.choice(['and', 'or'])} ({rnd.choice(atoms)})"
            if rnd.random() < 0.3:
                b = f"({b}) {rnd.choice(['and', 'or'])} ({rnd.choice(atoms)})"
            ops.append([rnd.choice(["and", "or"]), a, b])
    return ops


def _run_history(ctx, atoms, ops, fresh_budget):
    M, single = MM.classes()
    rnd = ctx.rnd
    # environments from the alphabet (pre-phase; caches are cleared afterwards)
    with oracle():
        MM.clear_caches()
        parsed = []
        for a in atoms:
            try:
                parsed.append(M.parse_marker(a))
            except Exception:  # noqa: BLE001
                pass
        envs = MW.environments(rnd, parsed, 30)
        MM.clear_caches()
    ctx.c10_envs = envs

    last = {}

    def do(op):
        try:
            obj = run_op(op)
            last["obj"] = obj
            return shape_of(obj, envs)
        except CaseTimeout:
            raise
        except Exception as e:  # noqa: BLE001
            last["obj"] = None
            return ("raised", type(e).__name__, ())

    # warm pass; re-rendered results are appended as parse operations with the text seen now
    warm = []
    warm_objs = []
    ops = list(ops)
    i = 0
    while i < len(ops):
        s = do(ops[i])
        warm.append(s)
        warm_objs.append(last["obj"])
        if s[0] not in ("raised", "non-marker") and s[1] not in ("", "<empty>") and rnd.random() < 0.12 and len(ops) < 160:
            ops.insert(rnd.randrange(i + 1, len(ops) + 1), ["parse", s[1]])
        i += 1
    hits_seen = ctx.c10_hits
    # cold results (caches cleared before every single operation)
    cold = {}
    cold_obj = {}
    for op in ops:
        key = json.dumps(op)
        if key not in cold:
            MM.clear_caches()
            cold[key] = do(op)
            cold_obj[key] = last["obj"]
    MM.clear_caches()

    def compare(where, op, got, position, order, obj):
        key = json.dumps(op)
        exp = cold[key]
        bump("position-vs-cold")
        ctx.evaluations += 1
        if got == exp:
            return
        sem = got[0] != exp[0] and (got[0] in ("raised",) or exp[0] in ("raised",)) or got[2] != exp[2]
        violation(PROP, where, "the result of an operation depends on what was computed before"
                  + (" (meaning)" if sem else " (text/class)"),
                  {"operation": op, "position": position, "warm": list(got[:2]), "cold": list(exp[:2]), "semantic": bool(sem),
                   "order": order, "group": "meaning" if sem else "text"},
                  live={"semantic": bool(sem), "same_type": got[0] == exp[0],
                        "lib_equal": _lib_equal(obj, cold_obj[key]) if obj is not None and cold_obj[key] is not None else False})

    for pos, (op, s) in enumerate(zip(ops, warm)):
        compare("history-position", op, s, pos, "original", warm_objs[pos])
        ctx.nontrivial(json.dumps(op))
    K = getattr(ctx, "c10_perms", None) or (3 if ctx.tier == "quick" else 8)
    for k in range(K):
        perm = list(range(len(ops)))
        rnd.shuffle(perm)
        MM.clear_caches()
        for pos, idx in enumerate(perm):
            sh = do(ops[idx])
            compare("permuted-history", ops[idx], sh, pos, f"permutation {k}", last["obj"])
    MM.clear_caches()
    # fresh interpreter for a sample (the only cold oracle when a cache cannot be emptied in-process)
    if MM.UNCLEARABLE:
        ctx.shape("in-process-cold-unavailable")
        fresh_budget = max(fresh_budget, 30)
    first_warm = {}
    for op, sh in zip(ops, warm):
        first_warm.setdefault(json.dumps(op), sh)
    # prefer operations that occur late in the history (most state underneath)
    late = [op for op in ops[len(ops) // 2:]]
    for op in rnd.sample(late, min(fresh_budget, len(late))):
        env = dict(os.environ)
        req = {"ops": [op], "given_text": cold[json.dumps(op)][1] if cold[json.dumps(op)][0] != "raised" else None, "envs": [{k: (sorted(v) if isinstance(v, set) else v) for k, v in e.items()} for e in envs]}
        try:
            p = subprocess.run([sys.executable, "-m", "vf.coldprobe", json.dumps(req)], cwd=VERIF, env=env,
                               capture_output=True, text=True, timeout=60)
            out = json.loads(p.stdout)[0]
        except Exception:  # noqa: BLE001
            ctx.inconclusive["fresh-interpreter-failed"] += 1
            continue
        bump("fresh-interpreter")
        if "error" in out:
            got = ("raised", out["error"].split(":")[0], ())
        else:
            got = (out["type"], out["text"], tuple(out["vec"]))
        # last warm occurrence of this operation in the original history
        wlast = None
        for o2, sh in zip(ops, warm):
            if o2 == op:
                wlast = sh
        if wlast is not None and wlast != got:
            semw = wlast[2] != got[2]
            violation(PROP, "fresh-interpreter", "the result inside a history differs from running the operation first in a fresh interpreter"
                      + (" (meaning)" if semw else " (text/class)"),
                      {"operation": op, "fresh": list(got[:2]), "in_history": list(wlast[:2]), "semantic": bool(semw),
                       "group": "fresh-vs-warm/" + ("meaning" if semw else "text")},
                      live={"semantic": bool(semw), "same_type": got[0] == wlast[0],
                            "lib_equal": _text_equal(out, wlast, op, envs)})
        exp = cold[json.dumps(op)]
        ctx.evaluations += 1
        if got != exp and not MM.UNCLEARABLE:
            sem = got[2] != exp[2]
            violation(PROP, "fresh-interpreter", "in-process result with cleared caches differs from a fresh interpreter"
                      + (" (meaning)" if sem else " (text/class)"),
                      {"operation": op, "fresh": list(got[:2]), "in_process_cold": list(exp[:2]), "semantic": bool(sem),
                       "group": "fresh/" + ("meaning" if sem else "text")},
                      live={"semantic": bool(sem), "same_type": got[0] == exp[0], "lib_equal": _text_equal(out, exp, op, envs)})
    if len(ctx.samples) < 4:
        ctx.sample({"alphabet": atoms[:6], "history_length": len(ops), "first_operations": ops[:4]})


def run(ctx):
    rnd = ctx.rnd
    n_hist = 9 if ctx.tier == "quick" else 60
    fresh = 6 if ctx.tier == "quick" else 8
    for h in range(n_hist):
        huge = (h == 1 and ctx.shard % 2 == 0) if ctx.tier == "quick" else (h % 10 == 1)
        # every shard sees every kind of alphabet at least once (h = 2..5), the rest is drawn
        kind = {2: "pyin", 3: "python", 4: "string", 5: "mixed", 6: "python", 7: "python"}.get(h)
        atoms = _huge_alphabet(rnd) if huge else _alphabet(rnd, kind)
        # (every cold parse of the 1 000-value text costs seconds: short history, one permutation)
        if huge:
            # the big operand is combined with one small marker and then with a second one; the same two small
            # markers are then combined on their own (the probe), in both orders
            big, small = atoms[0], atoms[1:]
            ops = [["parse", big]]
            # pairs in which one marker implies the other (the small operation then simplifies by absorption - the
            # step whose cached intermediate forms a big operation could leave behind), plus unrelated pairs
            implied = [('os_name != "a"', 'os_name == "b" and python_version >= "3.9" and python_version < "3.11"'),
                       ('os_name == "b"', 'os_name == "b" and python_version >= "3.9" and python_version < "3.11"'),
                       ('os_name == "a" or python_version < "3.9"', 'os_name == "b" and python_version >= "3.9" and python_version < "3.11"'),
                       ('python_version >= "3.9"', 'python_version >= "3.10" and os_name == "b"'),
                       ('os_name != "a"', 'os_name == "b"'), ('os_name == "a" or os_name == "b"', 'os_name == "b" and python_version < "3.9"'),
                       ('python_version >= "3.9" or os_name == "a"', 'python_version >= "3.9"'),
                       ('os_name != "a" or python_version < "3.8"', 'os_name != "a"')]
            pairs = rnd.sample(implied, 5) + [tuple(rnd.sample(small, 2))]
            for x, y in pairs:
                if rnd.random() < 0.5:
                    x, y = y, x
                k = rnd.random()
                o1, o2 = ("or", "or") if k < 0.55 else (("and", "and") if k < 0.8 else (rnd.choice(["or", "and"]), rnd.choice(["or", "and"])))
                ops.append([o2, f"({big}) {o1} ({x})", y])
                ops.append([o2, x, y])
                ops.append([o2, y, x])
            ops += _history(rnd, small, rnd.randint(4, 8))
        else:
            ops = _history(rnd, atoms, rnd.randint(40, 120))
            if kind == "python" or (kind is None and any("python_full_version" in a_ for a_ in atoms)):
                # spelling twins of whole operations: the same bounds written `3.10` / `3.10.0` (equal versions, equal
                # specifiers) merged to a NEW specifier, at random places of the history
                var = rnd.choice(["python_full_version", "python_version"])
                lo, hi = rnd.choice([("3.10", "3.11"), ("3.8", "3.9"), ("3.9", "3.10")])
                twins = []
                for z in ("", ".0"):
                    twins += [["and", f'{var} >= "{lo}{z}"', f'{var} < "{hi}{z}"'], ["or", f'{var} < "{lo}{z}"', f'{var} >= "{hi}{z}"'],
                              ["and", f'{var} >= "{lo}{z}"', f'{var} != "{lo}{z}"'], ["and", f'{var} <= "{hi}{z}"', f'{var} > "{lo}{z}"']]
                rnd.shuffle(twins)
                for t_ in twins:
                    ops.insert(rnd.randrange(len(ops) + 1), t_)
                ctx.shape("history:spelling-twin operations")
        ctx.c10_perms = 1 if huge else None
        if huge:
            ctx.shape("alphabet:huge-group")
        failing = (h == 1 and ctx.shard % 2 == 1) if ctx.tier == "quick" else (h % 10 == 2)
        if failing:
            atoms, ops = _failing_history(rnd)
            ctx.shape("history:failing-operations")
            ctx.c10_perms = 2
        ctx.cases += 1
        ctx.current_case = {"kind": "history", "atoms": atoms, "ops": ops}
        ctx.guarded((200.0 if huge else 120.0) if ctx.tier == "quick" else 400.0, _run_history, ctx, atoms, ops,
                    2 if huge else fresh)
    MM.clear_caches()
    ctx.current_case = None


def replay(ctx, case):
    ctx.rnd.seed(0)
    _run_history(ctx, case["atoms"], case["ops"], 0)
