"""C05 - specifier results are canonical; ==, is_empty(), is_any() are exact.

Deciding monitors: shape post-condition at the *return* of parse_version_specifier,
from_specifierset and every operator method; is_empty()/is_any() against the critical-point vector
of the result; pairwise == vs equality of admitted sets over all values produced inside one case
(shared critical points => exact), incl. hash agreement of equal values.
"""
from __future__ import annotations

from .. import specmon
from ..models import intervals as iv
from ..monitor import violation, bump
from ..workloads import specs as W
from ._spec_common import eval_tree, run_trees, small_scope_triples, spec_laws

PROP = "C05"
ANCHORS = ['dep_logic.specifiers.range:RangeSpecifier.__and__', 'dep_logic.specifiers.range:RangeSpecifier.__or__', 'dep_logic.specifiers.range:RangeSpecifier.__invert__', 'dep_logic.specifiers.union:UnionSpecifier.__and__', 'dep_logic.specifiers.union:UnionSpecifier.__or__', 'dep_logic.specifiers.union:UnionSpecifier.__invert__', 'dep_logic.specifiers.union:UnionSpecifier._from_ranges', 'dep_logic.specifiers.special:AnySpecifier.__eq__', 'dep_logic.specifiers.special:EmptySpecifier.__eq__', 'dep_logic.specifiers:_from_pkg_specifier', 'dep_logic.specifiers:parse_version_specifier']
RULE = ("Expression trees as in C01 plus law-shaped variants of each tree (x&y vs y&x, ~~x, x|~x, x&~x, "
        "(x|y)&x) so that the same set is reached along different operator paths; every value returned by the "
        "parser or an operator is one shape event; all values of a case are compared pairwise (== vs same admitted "
        "set). Non-trivial/distinct: structure of a result that is a union, or a pair of different objects "
        "admitting the same set."
        " Denotation oracle: is_empty()/is_any()/== of the variant roots against the set the expression denotes (model over the leaf sets), incl. &-free and |-free De Morgan paths; large trees (unions of 40-50 ranges).")
ASSUMPTIONS = [
    "structural reading of specifier objects; Version total order from packaging",
    "canonical = empty | one non-degenerate range | >=2 ascending, disjoint, non-touching, non-universal ranges",
]
MIN_EVENTS = {"parse_version_specifier": 50, "from_specifierset": 50, "RangeSpecifier.__and__": 50,
              "RangeSpecifier.__or__": 50, "UnionSpecifier.__or__": 20, "UnionSpecifier.__and__": 20,
              "UnionSpecifier.__invert__": 5, "pairwise-eq": 200, "denotation": 200, "denotation-eq": 200}
MIN_SHAPES = {"same-set-different-object": 1, "result:union": 20, "result:empty-from-nonempty": 5,
              "result:any-from-nonany": 2}


def setup(ctx):
    specmon.install_c05(ctx, PROP)


def _variants(tree, rnd):
    out = [tree]
    if tree[0] in ("and", "or"):
        out.append([tree[0], tree[2], tree[1]])
        out.append(["not", ["not", tree]])
        dual = "or" if tree[0] == "and" else "and"
        out.append(["not", [dual, ["not", tree[1]], ["not", tree[2]]]])
        out.append([dual, [tree[0], tree[1], tree[2]], tree[1]])
    out.append(["or", tree, ["not", tree]])
    out.append(["and", tree, ["not", tree]])
    out.append(["and", tree, ["rany"]])
    out.append(["or", tree, ["empty"]])
    return out


def _without(tree, avoid):
    """The same set computed without one of the binary operators: every `avoid` node is rewritten by De Morgan
    (a & b = ~(~a | ~b),  a | b = ~(~a & ~b)), so a defect confined to that operator cannot cancel out."""
    k = tree[0]
    if k == "not":
        return ["not", _without(tree[1], avoid)]
    if k in ("and", "or"):
        a, b = _without(tree[1], avoid), _without(tree[2], avoid)
        if k == avoid:
            return ["not", ["or" if k == "and" else "and", ["not", a], ["not", b]]]
        return [k, a, b]
    return tree


def _case(ctx):
    import dep_logic.specifiers as S

    def per_case(tree, pool):
        allvals = []
        leafvals, roots = {}, []

        def keep_leaf(t, v, kids):
            if t[0] in ("leaf", "fss", "any", "rany", "empty"):
                leafvals[id(t)] = v

        variants = _variants(tree, ctx.rnd)
        if W.tree_size(tree) > 60:   # large trees: the tree, its operand-swapped twin and the De Morgan path only
            variants = variants[:2] + variants[3:4]
        if W.tree_size(tree) > 60 or ctx.cases % 3 == 0 or getattr(ctx, "force_variants", False):
            variants += [_without(tree, "and"), _without(tree, "or")]
            ctx.shape("variant:operator-free path")
        for t in variants:
            root, values = eval_tree(ctx, t, keep_leaf, prop=PROP)
            roots.append((t, root))
            allvals.extend(values[-3:] if t is not tree else values)
            if root is None:
                continue
            if isinstance(root, S.UnionSpecifier):
                ctx.shape("result:union")
                ctx.nontrivial("u", iv.describe(root))
                ctx.sample({"tree": W.tree_text(t)[:300], "result": iv.describe(root)})
            elif isinstance(root, S.EmptySpecifier) and t[0] == "and":
                ctx.shape("result:empty-from-nonempty")
            elif iv.readable(root) and root.is_any() and t[0] == "or":
                ctx.shape("result:any-from-nonany")
        # dedupe by identity, cap for cost
        uniq = []
        seen = set()
        for v in allvals:
            if id(v) not in seen:
                seen.add(id(v))
                uniq.append(v)
        uniq = uniq[:28]
        from ..monitor import oracle
        with oracle():
            specmon.denotation_check(ctx, roots, leafvals, PROP)
            specmon.pairwise_eq_check(ctx, uniq, PROP)
            for i, x in enumerate(uniq):
                for y in uniq[i + 1:]:
                    if iv.readable(x) and iv.readable(y) and iv.describe(x) != iv.describe(y) and x == y:
                        ctx.nontrivial("eqpair", iv.describe(x), iv.describe(y))
                    if x == y and hash(x) != hash(y):
                        # equal results must be interchangeable as set members (C13 decides hashing itself)
                        ctx.shape("equal-with-different-hash (reported by C13)")
    return per_case


def _small(ctx):
    from ..monitor import CaseTimeout, oracle

    def per_triple(objs, texts):
        a, b, c = objs
        vals = []
        for name, lf, rf in spec_laws(a, b, c):
            for side in (lf, rf):
                if side is None:
                    continue
                try:
                    vals.append(side())
                except CaseTimeout:
                    raise
                except Exception:  # noqa: BLE001  (reported by C01/C14)
                    pass
        uniq, seen = [], set()
        for v in vals:
            if id(v) not in seen:
                seen.add(id(v))
                uniq.append(v)
        with oracle():
            specmon.pairwise_eq_check(ctx, uniq[:24], PROP)
    return per_triple


def run(ctx):
    if ctx.shard == 0:  # the repository's own pinned examples as one more workload (outcomes ignored)
        from ..repotests import run_repo_tests

        run_repo_tests(ctx, ("specifier", "marker", "tags"))
    run_trees(ctx, _case(ctx), scale=0.2, large=(3, 24, 50))
    small_scope_triples(ctx, _small(ctx))


def replay(ctx, case):
    if isinstance(case, dict) and case.get("kind") == "repo-test":
        from ..repotests import run_repo_tests

        run_repo_tests(ctx, nodeid=case["nodeid"])
        return
    if case.get("kind") == "small-triple":
        small_scope_triples(ctx, _small(ctx))
        return
    ctx.force_variants = True
    _case(ctx)(case["tree"], None)
