"""C03 - marker evaluation agrees with packaging.markers.Marker.

Deciding monitors: differential oracle at two levels - whole text (parse_marker(t).evaluate(env)
vs Marker(t).evaluate(env): catches parse-time mis-merges) and single atom (post-condition on
every MarkerExpression._evaluate call vs Marker(str(atom)).evaluate on the same environment:
catches _evaluate itself, wherever the call comes from).  Environments always carry every
variable the text mentions, so default_environment() never decides.
"""
from __future__ import annotations

import itertools

from packaging.markers import Marker as PkgMarker

from .. import markermon as MM
from ..monitor import CaseTimeout, bump, install, oracle, violation
from ..workloads import markers as MW

PROP = "C03"
ANCHORS = ['dep_logic.markers:_build_markers', 'dep_logic.markers.single:MarkerExpression._evaluate', 'dep_logic.markers.single:SingleMarker.evaluate', 'dep_logic.markers.single:EqualityMarkerUnion._evaluate', 'dep_logic.markers.single:InequalityMultiMarker._evaluate', 'dep_logic.markers.multi:MultiMarker.evaluate', 'dep_logic.markers.union:MarkerUnion.evaluate']
RULE = ("Marker texts from the grammar of the well-defined atom classes (both operand orders, all operators valid for "
        "the variable, nested and/or with parentheses, PEP 685 spellings of extras, dotted aliases os.name / "
        "sys.platform / platform.machine ..., set-valued extras / dependency_groups under context=lock_file), "
        "25-100 critical environments per text. Strata as in C02 (main, exhaustive atom table, pyin, revin, "
        "prerelease). One evaluation = one (text or atom, environment) comparison with packaging. "
        "Non-trivial/distinct: texts with >=2 atoms on one variable (parse-time merging happened) or a "
        "literal-on-the-left atom.")
ASSUMPTIONS = [
    "reference = packaging.markers.Marker of the installed packaging release, including its own quirks",
    "context='metadata' uses a str `extra`; context='lock_file' uses set-valued extras / dependency_groups",
]
MIN_EVENTS = {"text-vs-packaging": 3000, "MarkerExpression._evaluate": 3000, "lock-file-context": 100}
MIN_SHAPES = {"atom:reversed": 200, "atom:extra": 100, "atom:version-var": 500, "atom:string-var": 500,
              "text:dotted-alias": 20}
SHARDS = {"quick": 4, "thorough": 16}


def setup(ctx):
    MM.prepare(ctx)
    M, single = MM.classes()
    ctx.c03_env = None

    def post_eval(args, kwargs, r):
        atom, env = args[0], args[1]
        if ctx.c03_env is None:
            return
        context = ctx.c03_env
        ctx.shape("atom:reversed" if atom.reversed else "atom:forward")
        ctx.shape("atom:extra" if atom.name == "extra" else "atom:version-var" if atom.name in MW.VERSION_VARS
                  else "atom:string-var")
        text = str(atom)
        e = dict(env)
        if context == "metadata" and not isinstance(e.get("extra", ""), str):
            return
        try:
            exp = PkgMarker(text).evaluate(e, context=context)
        except CaseTimeout:
            raise
        except Exception:  # noqa: BLE001
            ctx.inconclusive["packaging-raised-on-atom"] += 1
            return
        ctx.evaluations += 1
        if bool(r) != bool(exp):
            violation(PROP, "MarkerExpression._evaluate", "atom evaluates differently from packaging",
                      {"atom": text, "env": MW.env_brief(e, [atom.name]), "got": bool(r), "packaging": bool(exp),
                       "reversed": atom.reversed, "stratum": ctx.stratum,
                       "group": f"{'rev' if atom.reversed else 'fwd'}/{atom.name if atom.name in MW.VERSION_VARS + ['extra'] else 'str'}/{atom.op}"},
                      live={"atom": atom, "env": e})

    install(single.MarkerExpression, "_evaluate", post_eval)


class _StrText(str):
    """A plain str subclass."""


def _PARSE_PARAM(M):
    import inspect

    try:
        return next(iter(inspect.signature(M.parse_marker).parameters))
    except Exception:  # noqa: BLE001
        return "marker"


def _one_text(ctx, text, context="metadata", envs=None):
    M, single = MM.classes()
    with oracle():
        try:
            ref = PkgMarker(text)
        except Exception:  # noqa: BLE001
            ctx.inconclusive["text-rejected-by-packaging"] += 1
            return
    try:
        form = ctx.cases % 11
        if form == 3:
            m = M.parse_marker(**{_PARSE_PARAM(M): text})      # by keyword (the documented parameter name)
            ctx.shape("call-form:keyword")
        elif form == 7:
            m = M.parse_marker(_StrText(text))                 # an instance of a str subclass
            ctx.shape("call-form:str-subclass")
        else:
            m = M.parse_marker(text)
    except CaseTimeout:
        raise
    except Exception as e:  # noqa: BLE001
        violation(PROP, "parse_marker", f"raised {type(e).__name__} on a marker packaging accepts",
                  {"text": text, "error": str(e)[:200], "stratum": ctx.stratum, "group": type(e).__name__})
        return
    with oracle():
        if envs is None:
            # atoms of the *unmerged* text: parse each atom on its own so that merged-away bounds still yield environments
            atoms = [m]
            for piece in _atom_texts(text):
                try:
                    atoms.append(M.parse_marker(piece))
                except Exception:  # noqa: BLE001
                    pass
            envs = MW.environments(ctx.rnd, atoms, 25 if ctx.tier == "quick" else 60,
                                   prerelease=ctx.stratum == "prerelease", str_extra_only=(context == "metadata"))
        names = MW.names_of(m) | {p.split()[0] for p in _atom_texts(text) if not p.startswith('"')}
        merged = len(MW.walk_atoms(m)) < MW.n_atoms(text)
        if merged or '" ' in text.split(" ")[0] or any(p.startswith('"') for p in _atom_texts(text)):
            ctx.nontrivial(text)
    for env in envs:
        e = dict(env)
        with oracle():
            try:
                exp = ref.evaluate(dict(e), context=context)
            except Exception:  # noqa: BLE001
                ctx.inconclusive["packaging-raised"] += 1
                continue
        ctx.c03_env = context
        try:
            got = m.evaluate(dict(e), context=context)
        except CaseTimeout:
            raise
        except Exception as ex:  # noqa: BLE001
            violation(PROP, "text-vs-packaging", f"evaluate raised {type(ex).__name__} where packaging answers",
                      {"text": text, "parsed": MM.mtext(m), "env": MW.env_brief(e, names), "packaging": bool(exp),
                       "error": str(ex)[:160], "stratum": ctx.stratum, "group": "raise"})
            continue
        finally:
            ctx.c03_env = None
        ctx.evaluations += 1
        bump("text-vs-packaging")
        if context == "lock_file":
            bump("lock-file-context")
        if bool(got) != bool(exp):
            violation(PROP, "text-vs-packaging", "marker evaluates differently from packaging",
                      {"text": text, "parsed": MM.mtext(m), "env": MW.env_brief(e, names), "got": bool(got),
                       "packaging": bool(exp), "stratum": ctx.stratum, "context": context,
                       "group": "merged" if merged else "unmerged"},
                      live={"marker": m, "env": e, "text": text})
            return
    if hasattr(ctx, "c03_kept") and len(ctx.c03_kept) < 300 and ctx.cases % 9 == 0 and context == "metadata":
        ctx.c03_kept.append((text, m, ref, [dict(e) for e in envs[:12]], ctx.stratum))
    if len(ctx.samples) < 6 and ctx.cases % 50 == 7:
        ctx.sample({"text": text, "parsed_as": MM.mtext(m), "environments": len(envs), "stratum": ctx.stratum})


def _atom_texts(text):
    import re

    return [a.strip() for a in re.findall(r'(?:[a-z_.]+\s*(?:==|!=|<=|>=|<|>|~=|not in|in)\s*"[^"]*"|"[^"]*"\s*(?:==|!=|<=|>=|<|>|~=|not in|in)\s*[a-z_.]+)', text)]


def _stratum(ctx, name, cfg, n, depth=2, max_atoms=7):
    ctx.stratum = name
    MM.clear_caches()
    rnd = ctx.rnd
    t0 = ctx.elapsed()
    limit = (10 if ctx.tier == "quick" else 120) * (1.0 if name == "main" else 0.4)
    for i in range(n):
        if ctx.elapsed() - t0 > limit:
            ctx.extra[f"{name}_stopped_by_time_budget_after"] = i
            break
        sv = rnd.sample(MW.STRVARS, rnd.randint(1, 2)) if rnd.random() < 0.5 else None
        sl = rnd.sample(MW.STRLIT, rnd.randint(2, 4)) if sv else None
        t = MW.text(rnd, cfg, rnd.randint(0, depth), sv, sl)
        if MW.n_atoms(t) > max_atoms:
            continue
        if rnd.random() < 0.08:
            for a, b in (("os_name", "os.name"), ("sys_platform", "sys.platform"), ("platform_machine", "platform.machine"),
                         ("platform_python_implementation", "platform.python_implementation")):
                if a in t:
                    t = t.replace(a, b)
                    ctx.shape("text:dotted-alias")
                    break
        ctx.cases += 1
        ctx.current_case = {"kind": "text", "text": t, "stratum": name, "context": "metadata"}
        if name == "revin":
            MM.clear_caches()  # equality ignores `reversed`: keep cross-text cache collisions (C10) out of C03
        ctx.guarded(5.0 if ctx.tier == "quick" else 20.0, _one_text, ctx, t)


def _atom_table(ctx):
    """Every operator x operand order x variable class on a value grid: the _evaluate table, exhaustively."""
    ctx.stratum = "main"
    rows = []
    for var, vals in (("python_version", ["3.8", "3.10", "3"]), ("python_full_version", ["3.8.1", "3.8", "3.10.0"]),
                      ("platform_release", ["5.10", "5.10.0", "6"])):
        for v in vals:
            for op in ("==", "!=", "<", "<=", ">", ">="):
                rows.append(f'{var} {op} "{v}"')
                rows.append(f'"{v}" {op} {var}')
            if "." in v:
                rows.append(f'{var} ~= "{v}"')
            rows.append(f'{var} == "{v}.*"')
            rows.append(f'{var} != "{v}.*"')
    for var in ("os_name", "sys_platform"):
        for lit in ("linux", "lin", "", "linux2"):
            for op in ("==", "!=", "in", "not in"):
                rows.append(f'{var} {op} "{lit}"')
            for op in ("==", "!="):
                rows.append(f'"{lit}" {op} {var}')
    for n in ("a", "Foo_Bar", "foo-bar", "foo.bar"):
        for op in ("==", "!="):
            rows.append(f'extra {op} "{n}"')
            rows.append(f'"{n}" {op} extra')
    for i, t in enumerate(rows):
        if i % ctx.nshards != ctx.shard:
            continue
        ctx.cases += 1
        ctx.current_case = {"kind": "text", "text": t, "stratum": "main", "context": "metadata"}
        ctx.guarded(10.0, _one_text, ctx, t)
    # two atoms on one variable (parse-time merging), all pairs of a small table
    small = [r for r in rows if r.startswith(("python_version", "python_full_version", '"3'))][:: 3]
    pairs = list(itertools.product(small, repeat=2))
    step = ctx.nshards * (1 if ctx.tier == "thorough" else 5)
    off = ctx.shard + (ctx.seed % 5) * ctx.nshards if ctx.tier == "quick" else ctx.shard
    for i in range(off, len(pairs), step):
        x, y = pairs[i]
        t = f"{x} {('and', 'or')[i % 2]} {y}"
        ctx.cases += 1
        ctx.current_case = {"kind": "text", "text": t, "stratum": "main", "context": "metadata"}
        ctx.guarded(10.0, _one_text, ctx, t)


def _lock_file(ctx):
    """Set-valued extras / dependency_groups membership under context=lock_file."""
    ctx.stratum = "main"
    rnd = ctx.rnd
    names = ["a", "b", "Foo_Bar", "foo-bar", "c.d"]
    for i in range(60 if ctx.tier == "quick" else 600):
        parts = []
        for _ in range(rnd.randint(1, 3)):
            var = rnd.choice(["extras", "dependency_groups"])
            parts.append(f'"{rnd.choice(names)}" {rnd.choice(["in", "not in"])} {var}')
        if rnd.random() < 0.3:
            parts.append(f'python_version >= "{rnd.choice(MW.PYV)}"')
        t = rnd.choice([" and ", " or "]).join(parts)
        envs = []
        for _ in range(8):
            e = {"extras": set(rnd.sample(["a", "b", "foo-bar", "foo_bar", "FOO.BAR", "c-d", "zz"], rnd.randint(0, 3))),
                 "dependency_groups": set(rnd.sample(["a", "b", "foo-bar", "c.d", "zz"], rnd.randint(0, 2))),
                 "python_full_version": rnd.choice(MW.FULLS)}
            e["python_version"] = ".".join(e["python_full_version"].split(".")[:2])
            # partial environments: the caller supplies only one of the two set-valued keys (or neither); the
            # context's defaults fill in the rest
            k = rnd.random()
            if k < 0.2:
                del e["extras"]
                ctx.shape("lock-file:partial-environment")
            elif k < 0.4:
                del e["dependency_groups"]
                ctx.shape("lock-file:partial-environment")
            elif k < 0.47:
                del e["extras"], e["dependency_groups"]
            envs.append(e)
        ctx.cases += 1
        ctx.current_case = {"kind": "text", "text": t, "stratum": "main", "context": "lock_file"}
        ctx.guarded(5.0, _one_text, ctx, t, "lock_file", envs)
        if i % 5 == 0:
            # the same texts under the other contexts, with whatever subset of the special keys the caller passes
            for context in ("metadata", "requirement"):
                envs2 = []
                for e in envs[:4]:
                    e2 = {k: v for k, v in e.items() if k not in ("extras", "dependency_groups") or rnd.random() < 0.6}
                    if rnd.random() < 0.5:
                        e2["extra"] = rnd.choice(["", "a", "foo-bar"])
                    envs2.append(e2)
                ctx.current_case = {"kind": "text", "text": t, "stratum": "main", "context": context}
                ctx.guarded(5.0, _one_text, ctx, t, context, envs2)


def _tree_as_text(t):
    if t[0] == "m":
        return t[1]
    if t[0] in ("and", "or"):
        a, b = _tree_as_text(t[1]), _tree_as_text(t[2])
        if a is None or b is None:
            return None
        return f"({a}) {t[0]} ({b})"
    return None


def _small_scope(ctx):
    """The small-scope strata of the marker checks, written out as single texts: several atoms on
    one variable with explicit parentheses (parse-time merging of groups, CNF/DNF shapes)."""
    from ._marker_common import small_scope_trees

    ctx.stratum = "main"
    MM.clear_caches()
    step = ctx.nshards * (2 if ctx.tier == "thorough" else 12)
    off = ctx.shard if ctx.tier == "thorough" else ctx.shard + (ctx.seed % 12) * ctx.nshards
    n = 0
    for i, t in enumerate(small_scope_trees(ctx)):
        if i % step != off % step:
            continue
        text = _tree_as_text(t)
        if text is None:
            continue
        n += 1
        ctx.cases += 1
        ctx.current_case = {"kind": "text", "text": text, "stratum": "main", "context": "metadata"}
        ctx.guarded(5.0 if ctx.tier == "quick" else 20.0, _one_text, ctx, text)
    ctx.extra["small_scope_texts"] = n


def _lock_file_sessions(ctx):
    """One environment dict whose set-valued entries are edited IN PLACE between evaluations (what a resolver
    does while it activates extras): every evaluation is compared with packaging on the environment as it is now."""
    M, single = MM.classes()
    ctx.stratum = "main"
    rnd = ctx.rnd
    names = ["a", "b", "docs", "test", "foo-bar", "Foo_Bar", "c.d"]
    texts = []
    for n in names[:5]:
        for var in ("extras", "dependency_groups"):
            texts.append(f'"{n}" in {var}')
            texts.append(f'"{n}" not in {var}')
    texts += ['"docs" in extras and "test" not in dependency_groups', '"a" in extras or "b" in extras',
              '"foo_bar" in extras and python_version >= "3.8"']
    for _ in range(12 if ctx.tier == "quick" else 150):
        extras, groups = set(rnd.sample(names, rnd.randint(0, 2))), set(rnd.sample(names, rnd.randint(0, 2)))
        env = {"extras": extras, "dependency_groups": groups, "python_full_version": "3.9.1", "python_version": "3.9"}
        for step in range(14):
            k = rnd.random()
            tgt = extras if rnd.random() < 0.6 else groups
            if k < 0.45:
                tgt.add(rnd.choice(names))          # in-place edits of the very same set objects
            elif k < 0.7 and tgt:
                tgt.discard(rnd.choice(sorted(tgt)))
            elif k < 0.8:
                tgt.clear()
            if rnd.random() < 0.5:
                # plain entries of the very same dict are re-assigned as well (the next interpreter of a resolver loop)
                fv = rnd.choice(["3.7.9", "3.8.0", "3.9.1", "3.12.1"])
                env["python_full_version"] = fv
                env["python_version"] = ".".join(fv.split(".")[:2])
            for t in rnd.sample(texts, 4):
                ctx.cases += 1
                ctx.current_case = {"kind": "text", "text": t, "stratum": "main", "context": "lock_file"}
                with oracle():
                    exp = PkgMarker(t).evaluate({**env, "extras": set(extras), "dependency_groups": set(groups)}, context="lock_file")
                try:
                    got = M.parse_marker(t).evaluate(env, context="lock_file")  # env passed as is, not copied
                except Exception as e:  # noqa: BLE001
                    violation(PROP, "text-vs-packaging", f"evaluate raised {type(e).__name__}", {"text": t, "group": "raise"})
                    continue
                ctx.evaluations += 1
                bump("in-place-env")
                if bool(got) != bool(exp):
                    violation(PROP, "text-vs-packaging", "marker evaluates differently from packaging after the environment's set was edited in place",
                              {"text": t, "extras": sorted(extras), "dependency_groups": sorted(groups), "got": bool(got),
                               "packaging": bool(exp), "step": step, "context": "lock_file", "group": "in-place-env"})
                    break
    ctx.shape("stratum:in-place-env")


def _arbitrary_equality(ctx):
    """`===` atoms (string identity of the version text) on the version-aware variables, in both operand orders, alone
    and next to atoms of OTHER variables (combining them with the same variable may raise ValueError, C04), on
    environments that spell equal versions differently - canonical and not: for `===` the spelling is the value."""
    ctx.stratum = "main"
    spell = {"python_full_version": ["3.8.1", "3.08.1", "v3.8.1", "3.8.1.0", "3.8.01", "3.8.1rc1", "3.8.1RC1", "3.8.1-1", "3.8.1.post1"],
             "python_version": ["3.8", "3.08", "3.8.0", "v3.8", "3.10", "3.1"],
             "platform_release": ["5.4.0-42", "5.4.0.post42", "5.4.0", "5.04.0", "5.4", "V5.4", "6.1.0-rc1", "6.1.0rc1"]}
    base = {"python_full_version": "3.8.1", "python_version": "3.8", "platform_release": "5.4.0", "os_name": "a", "extra": ""}
    n = 0
    for var, lits in spell.items():
        envs = [{**base, var: v} for v in lits]
        for lit in lits:
            for t in (f'{var} === "{lit}"', f'"{lit}" === {var}', f'{var} === "{lit}" and os_name == "a"',
                      f'os_name == "b" or "{lit}" === {var}', f'{var} === "{lit}" and extra == "x"'):
                if (n + ctx.shard) % ctx.nshards:
                    n += 1
                    continue
                n += 1
                ctx.cases += 1
                ctx.current_case = {"kind": "text", "text": t, "stratum": "main", "context": "metadata", "spellings": var}
                ctx.guarded(5.0, _one_text, ctx, t, "metadata", envs)
    ctx.shape("stratum:arbitrary-equality", n)


def run(ctx):
    quick = ctx.tier == "quick"
    ctx.c03_kept = []
    _atom_table(ctx)
    _arbitrary_equality(ctx)
    _small_scope(ctx)
    _lock_file(ctx)
    _lock_file_sessions(ctx)
    _stratum(ctx, "main", MW.Cfg(), 700 if quick else 10000)
    _stratum(ctx, "prerelease", MW.Cfg(), 100 if quick else 1500)
    _stratum(ctx, "prelit", MW.Cfg(prelit=True, extras=False), 150 if quick else 2000)
    _stratum(ctx, "pyin", MW.Cfg(pyin=True), 100 if quick else 1500)
    _stratum(ctx, "revin", MW.Cfg(rev_in=True, few_vars=["sys_platform", "os_name"]), 100 if quick else 1500)
    # marker objects kept from earlier are evaluated again at the end, environments in reverse order: the answer of an
    # object must not depend on what it (or anything else) was asked before
    for text, m, ref, envs, stratum in ctx.c03_kept:
        ctx.stratum = stratum
        ctx.current_case = {"kind": "text", "text": text, "stratum": stratum, "context": "metadata"}
        for e in reversed(envs):
            with oracle():
                try:
                    exp = ref.evaluate(dict(e))
                except Exception:  # noqa: BLE001
                    continue
            try:
                got = m.evaluate(dict(e))
            except Exception:  # noqa: BLE001
                continue
            bump("retained-marker")
            if bool(got) != bool(exp):
                violation(PROP, "text-vs-packaging", "a marker object kept from earlier evaluates differently from packaging when asked again",
                          {"text": text, "parsed": MM.mtext(m), "env": MW.env_brief(e, MW.names_of(m)), "got": bool(got),
                           "packaging": bool(exp), "stratum": stratum, "context": "metadata", "group": "retained"},
                          live={"marker": m, "env": e, "text": text})
                break
    ctx.stratum = "main"
    MM.clear_caches()
    ctx.current_case = None


def replay(ctx, case):
    MM.clear_caches()
    ctx.stratum = case.get("stratum", "main")
    _one_text(ctx, case["text"], case.get("context", "metadata"))
