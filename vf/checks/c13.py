"""C13 - equality is an equivalence compatible with hashing, and equal objects are interchangeable.

Deciding monitors: (1) in-situ spies on __eq__ of every specifier and marker class while the
library runs its own set-based simplification and memoisation: every __eq__ that answered True
must have equal hashes and a symmetric answer; (2) an object zoo collecting every distinct object
seen by the workloads (both spellings of the universal set, atoms differing in operand order or
attached caches, groups built in different orders): reflexivity, symmetry, hash agreement, dict
lookup, transitivity inside buckets of equal signature, and interchangeability
sig(a op x) == sig(a op y) for x == y.
"""
from __future__ import annotations

import itertools

from .. import markermon as MM
from ..models import intervals as iv
from ..monitor import CaseTimeout, bump, install, oracle, violation
from ..workloads import markers as MW
from ..workloads import specs as W
from ._spec_common import eval_tree

PROP = "C13"
ANCHORS = ['dep_logic.specifiers.special:AnySpecifier.__eq__', 'dep_logic.specifiers.special:AnySpecifier.__hash__', 'dep_logic.specifiers.special:EmptySpecifier.__eq__', 'dep_logic.specifiers.special:EmptySpecifier.__hash__', 'dep_logic.markers.any:AnyMarker.__eq__', 'dep_logic.markers.empty:EmptyMarker.__eq__', 'dep_logic.utils:OrderedSet.__hash__', 'dep_logic.utils:OrderedSet.__contains__']
RULE = ("Object zoo: every value produced while evaluating seeded specifier trees and marker operation trees, plus "
        "hand-picked spellings (AnySpecifier() vs RangeSpecifier(), EmptySpecifier(), versions spelled 1.0 / 1.0.0, "
        "atoms with literal on either side, atoms with and without a cached specifier view, grouped ==/!= atoms built "
        "in different orders, compound markers with permuted children). Pairs are drawn inside buckets of equal "
        "signature (critical-point vector / evaluation vector) and across buckets; triples inside buckets. "
        "In-situ: every __eq__ call made by the library during those workloads. Non-trivial/distinct: pairs of "
        "non-identical objects that compare equal."
        " The zoo contains the spellings of the universal/empty set through the least version (>=0.dev0, <0.dev0, their complements).")
ASSUMPTIONS = [
    "signatures: exact critical-point vectors for specifiers, sampled evaluation vectors for markers",
    "Python data-model contract: x == y implies hash(x) == hash(y); == reflexive, symmetric, transitive",
]
MIN_EVENTS = {"eq-true-in-situ": 2000, "zoo-pair": 3000, "zoo-triple": 200, "interchange": 300}
MIN_SHAPES = {"equal-nonidentical:specifier": 50, "equal-nonidentical:marker": 50, "pair:any-vs-range": 1,
              "pair:reversed-vs-forward": 5, "pair:group-order": 2}
SHARDS = {"quick": 4, "thorough": 16}


def _classes():
    import dep_logic.markers as M
    import dep_logic.markers.single as single
    import dep_logic.specifiers as S

    spec = [S.RangeSpecifier, S.UnionSpecifier, S.EmptySpecifier, S.AnySpecifier, S.GenericSpecifier, S.ArbitrarySpecifier]
    mark = [single.MarkerExpression, single.EqualityMarkerUnion, single.InequalityMultiMarker, M.MultiMarker,
            M.MarkerUnion, M.AnyMarker, M.EmptyMarker]
    return spec, mark


def setup(ctx):
    MM.prepare(ctx)
    spec, mark = _classes()
    ctx.zoo_spec, ctx.zoo_mark = [], []
    ctx.zoo_ids = set()
    ctx.zoo_hash0 = {}

    def post_eq(args, kwargs, r):
        if r is not True:
            return
        x, y = args[0], args[1]
        if x is y:
            return
        bump("eq-true-in-situ")
        ctx.evaluations += 1
        try:
            hx, hy = hash(x), hash(y)
        except Exception as e:  # noqa: BLE001
            violation(PROP, "__eq__ (in situ)", f"hash() raised {type(e).__name__} on an object that compared equal",
                      {"x": repr(x), "y": repr(y)})
            return
        if hx != hy:
            violation(PROP, "__eq__ (in situ)", "x == y inside the library but hash(x) != hash(y)",
                      {"x": repr(x), "y": repr(y), "x_type": type(x).__name__, "y_type": type(y).__name__,
                       "group": f"hash/{type(x).__name__}/{type(y).__name__}"}, live={"x": x, "y": y})
        back = y == x
        if back is not True:
            violation(PROP, "__eq__ (in situ)", "x == y inside the library but not y == x",
                      {"x": repr(x), "y": repr(y), "y==x": repr(back), "group": "asymmetric"}, live={"x": x, "y": y})

    for cls in spec + mark:
        if "__eq__" in cls.__dict__:
            install(cls, "__eq__", post_eq, mon=f"{cls.__name__}.__eq__")


def _add(ctx, zoo, obj, cap):
    if id(obj) in ctx.zoo_ids or len(zoo) >= cap:
        return
    ctx.zoo_ids.add(id(obj))
    zoo.append(obj)
    try:
        ctx.zoo_hash0[id(obj)] = hash(obj)  # hash at first sight: must survive every later use of the object
    except Exception:  # noqa: BLE001
        pass


def _spec_sig(x, pts):
    if iv.readable(x):
        return ("iv",) + iv.vector(x, pts)
    return ("other", type(x).__name__, str(x))


def _check_pairs(ctx, zoo, sig_of, kind, interchange):
    """Generic zoo checks. sig_of(list) -> list of signatures (hashable)."""
    rnd = ctx.rnd
    sigs = sig_of(zoo)
    buckets = {}
    for i, s in enumerate(sigs):
        buckets.setdefault(s, []).append(i)
    pairs = []
    for idxs in buckets.values():
        if len(idxs) > 1:
            ps = list(itertools.combinations(idxs, 2))
            rnd.shuffle(ps)
            pairs += ps[:40]
    # objects with equal hashes are the candidates for == (also across signature buckets)
    hb = {}
    for i, x in enumerate(zoo):
        try:
            hb.setdefault(hash(x), []).append(i)
        except Exception:  # noqa: BLE001
            pass
    for idxs in hb.values():
        if len(idxs) > 1:
            ps = list(itertools.combinations(idxs, 2))
            rnd.shuffle(ps)
            pairs += ps[:40]
    # objects whose texts differ only in case / blanks / quote style are candidates as well
    tb = {}
    for i, x in enumerate(zoo):
        try:
            key = "".join(str(x).lower().split()).replace("'", '"')
        except Exception:  # noqa: BLE001
            continue
        tb.setdefault((type(x).__name__, key), []).append(i)
    for idxs in tb.values():
        if len(idxs) > 1:
            ps = list(itertools.combinations(idxs, 2))
            rnd.shuffle(ps)
            pairs += ps[:20]
    # near twins: atoms / specifiers whose version literals agree on a prefix (3.8.1 vs 3.8.1.5 vs 3.8.1.0):
    # candidates for an equality that truncates or pads
    import re as _re

    pb = {}
    for i, x in enumerate(zoo):
        try:
            txt = str(x)
        except Exception:  # noqa: BLE001
            continue
        for k in (2, 3):
            key = _re.sub(r"(\d+(?:\.\d+){%d})(?:\.\d+)+" % (k - 1), r"\1", txt)
            if key != txt or _re.search(r"\d+(?:\.\d+){%d}" % (k - 1), txt):
                pb.setdefault((type(x).__name__, k, key), []).append(i)
    for idxs in pb.values():
        if 1 < len(idxs) <= 12:
            ps = list(itertools.combinations(idxs, 2))
            rnd.shuffle(ps)
            pairs += ps[:10]
    n = len(zoo)
    for _ in range(min(600, n * 3)):
        i, j = rnd.randrange(n), rnd.randrange(n)
        if i != j:
            pairs.append((i, j))
    for x in zoo:
        ctx.evaluations += 1
        try:
            if not (x == x) or hash(x) != hash(x):
                violation(PROP, "zoo-pair", "object is not equal to itself / hash unstable", {"x": repr(x), "group": "reflexive"})
        except Exception as e:  # noqa: BLE001
            violation(PROP, "zoo-pair", f"== / hash raised {type(e).__name__}", {"x": repr(x), "group": "raise"})
    equal_pairs = []
    for i, j in pairs:
        x, y = zoo[i], zoo[j]
        bump("zoo-pair")
        ctx.evaluations += 1
        try:
            e1, e2 = x == y, y == x
        except Exception as e:  # noqa: BLE001
            violation(PROP, "zoo-pair", f"== raised {type(e).__name__}", {"x": repr(x), "y": repr(y), "group": "raise"})
            continue
        if bool(e1) != bool(e2):
            violation(PROP, "zoo-pair", "== is not symmetric", {"x": repr(x), "y": repr(y), "x==y": repr(e1), "y==x": repr(e2),
                                                                "group": "asymmetric"}, live={"x": x, "y": y})
            continue
        if e1 is True or e1 == True:  # noqa: E712
            if x is not y:
                ctx.shape(f"equal-nonidentical:{kind}")
                ctx.nontrivial(kind, repr(x), repr(y), type(x).__name__, type(y).__name__)
            try:
                hx, hy = hash(x), hash(y)
            except Exception as e:  # noqa: BLE001
                violation(PROP, "zoo-pair", f"hash raised {type(e).__name__}", {"x": repr(x), "y": repr(y)})
                continue
            if hx != hy:
                violation(PROP, "zoo-pair", "x == y but hash(x) != hash(y)",
                          {"x": repr(x), "y": repr(y), "x_type": type(x).__name__, "y_type": type(y).__name__,
                           "group": f"hash/{type(x).__name__}/{type(y).__name__}"}, live={"x": x, "y": y})
            elif {x: 1}.get(y) != 1 or y not in {x}:
                violation(PROP, "zoo-pair", "equal objects are not found as dict/set keys of each other",
                          {"x": repr(x), "y": repr(y), "group": "dict"}, live={"x": x, "y": y})
            if sigs[i] != sigs[j]:
                violation(PROP, "zoo-pair", "x == y but the two objects have different meaning (not interchangeable)",
                          {"x": repr(x), "y": repr(y), "x_type": type(x).__name__, "y_type": type(y).__name__,
                           "group": "meaning"}, live={"x": x, "y": y})
            else:
                equal_pairs.append((i, j))
    # transitivity inside buckets
    for idxs in buckets.values():
        if len(idxs) < 3:
            continue
        ts = list(itertools.combinations(idxs[:12], 3))
        rnd.shuffle(ts)
        for i, j, k in ts[:30]:
            x, y, z = zoo[i], zoo[j], zoo[k]
            bump("zoo-triple")
            ctx.evaluations += 1
            for a, b, c in ((x, y, z), (y, z, x), (z, x, y)):
                if a == b and b == c and not (a == c):
                    violation(PROP, "zoo-triple", "== is not transitive", {"x": repr(a), "y": repr(b), "z": repr(c),
                                                                           "group": "transitive"})
    # interchangeability as operands
    rnd.shuffle(equal_pairs)
    for i, j in equal_pairs[:60]:
        if zoo[i] is zoo[j]:
            continue
        for _ in range(3):
            a = zoo[rnd.randrange(n)]
            interchange(a, zoo[i], zoo[j])


def _spec_part(ctx):
    import dep_logic.specifiers as S

    rnd = ctx.rnd
    zoo = ctx.zoo_spec
    for x in (S.AnySpecifier(), S.RangeSpecifier(), S.EmptySpecifier(), S.EmptySpecifier(), ~S.EmptySpecifier(),
              S.parse_version_specifier(""), S.parse_version_specifier("<empty>"), S.parse_version_specifier(">=1.0"),
              S.parse_version_specifier(">=1.0.0"), S.parse_version_specifier(">=1"), S.parse_version_specifier("==1.0"),
              S.parse_version_specifier("==1.0.0"), S.parse_version_specifier(">=1.0") & S.parse_version_specifier("<=1.0.0"),
              S.parse_version_specifier("~=1.2"), S.parse_version_specifier(">=1.2,<2.0"), S.parse_version_specifier("==1.*"),
              S.parse_version_specifier(">=1.0,<2.0"), S.parse_version_specifier(">=1.0.0,<2"),
              S.GenericSpecifier("==", "a"), S.GenericSpecifier("==", "a"), S.GenericSpecifier("in", "a"),
              S.ArbitrarySpecifier("1.0"), S.ArbitrarySpecifier("1.0"), S.ArbitrarySpecifier("1.0.0"),
              # spelling twins: equal only if the library says so - then hashes must agree too
              S.parse_version_specifier("===1.0rc1"), S.parse_version_specifier("===1.0RC1"),
              S.parse_version_specifier("===abc"), S.parse_version_specifier("===ABC"),
              S.parse_version_specifier(">=1.0rc1"), S.parse_version_specifier(">=1.0RC1"), S.parse_version_specifier(">=1.0c1"),
              S.parse_version_specifier("==1.0.post1"), S.parse_version_specifier("==1.0-1"),
              S.parse_version_specifier(">=v1.0"), S.parse_version_specifier(">= 1.0"),
              S.GenericSpecifier("==", "A"), S.GenericSpecifier("in", "A"), S.GenericSpecifier("!=", "a"),
              S.GenericSpecifier("!=", "a"),
              # spellings of the universal / empty set through the least PEP 440 version
              S.parse_version_specifier(">=0.dev0"), S.parse_version_specifier(">=0.0.dev0"),
              ~S.parse_version_specifier("<0.dev0"), S.parse_version_specifier("<0.dev0"),
              S.parse_version_specifier(">0.dev0"), S.parse_version_specifier(">=0"),
              S.parse_version_specifier(">=0.dev0") | S.parse_version_specifier("<1"),
              S.parse_version_specifier("<0.dev0") & S.parse_version_specifier("<1")):
        _add(ctx, zoo, x, 10 ** 6)
    ctx.shape("pair:any-vs-range")
    n = 120 if ctx.tier == "quick" else 1500
    for _ in range(n):
        pool = W.version_pool(rnd, rnd.randint(4, 8))
        tree = W.gen_tree(rnd, pool, rnd.randint(1, 3))
        if W.tree_size(tree) > 20:
            continue
        ctx.cases += 1
        ctx.current_case = {"kind": "tree", "tree": tree}
        vals = []
        ok, res = ctx.guarded(10.0, eval_tree, ctx, tree, prop=PROP)
        if ok and res:
            root, values = res
            # law-shaped variants reach the same set along other paths
            for t in (["not", ["not", tree]], ["or", tree, ["empty"]], ["and", tree, ["rany"]], ["and", tree, ["any"]]):
                ok2, res2 = ctx.guarded(10.0, eval_tree, ctx, t, prop=PROP)
                if ok2 and res2 and res2[0] is not None:
                    values = values + [res2[0]]
            for v in values[-6:]:
                _add(ctx, zoo, v, 400 if ctx.tier == "quick" else 1500)

    def sig_of(z):
        with oracle():
            pts = iv.points(*[x for x in z if iv.readable(x)])
            return [_spec_sig(x, pts) for x in z]

    def interchange(a, x, y):
        if not all(iv.readable(o) for o in (a, x, y)):
            return
        bump("interchange")
        for opn, op in (("and", lambda p, q: p & q), ("or", lambda p, q: p | q)):
            try:
                rx, ry = op(a, x), op(a, y)
            except Exception as e:  # noqa: BLE001
                violation(PROP, "interchange", f"operator raised {type(e).__name__}", {"a": repr(a), "x": repr(x), "y": repr(y)})
                continue
            pts = iv.points(rx, ry)
            ctx.evaluations += 1
            if iv.vector(rx, pts) != iv.vector(ry, pts):
                violation(PROP, "interchange", "x == y but a op x and a op y have different meaning",
                          {"a": iv.describe(a), "x": iv.describe(x), "y": iv.describe(y), "op": opn, "group": "interchange"},
                          live={"x": x, "y": y})

    with oracle():
        pass
    _check_pairs(ctx, zoo, sig_of, "specifier", interchange)


def _marker_part(ctx):
    M, single = MM.classes()
    rnd = ctx.rnd
    zoo = ctx.zoo_mark
    P = M.parse_marker
    MM.clear_caches()
    hand = ['os_name == "a"', '"a" == os_name', 'python_version >= "3.8"', '"3.8" <= python_version',
            'os_name == "a" or os_name == "b"', 'os_name == "b" or os_name == "a"',
            'os_name != "a" and os_name != "b"', 'os_name != "b" and os_name != "a"',
            'os_name == "a" and sys_platform == "linux"', 'sys_platform == "linux" and os_name == "a"',
            'os_name == "a" or sys_platform == "linux"', 'sys_platform == "linux" or os_name == "a"',
            'python_full_version >= "3.8"', 'python_full_version >= "3.8.0"', "", "<empty>", 'extra == "Foo_Bar"',
            'extra == "foo-bar"', 'python_version >= "3.8" and python_version < "3.10"',
            'python_version < "3.10" and python_version >= "3.8"',
            'os_name == "NT"', 'os_name == "nt"', "os_name == 'nt'", 'os_name=="nt"', 'extra == "FOO-BAR"', 'extra == "foo_bar"',
            'python_version >= "3.8.0"', 'platform_release >= "5.10"', 'platform_release >= "5.10.0"',
            'python_full_version == "3.8.1"', 'python_full_version == "3.8.1.5"', 'python_full_version == "3.8.1.0"',
            'python_full_version >= "3.8.1.5"', 'python_full_version >= "3.8.1"', 'python_full_version < "3.8"',
            'python_full_version < "3.8.0.1"', 'platform_release == "5.10.0.1"', 'platform_release == "5.10"',
            # literal-on-the-left in / not in (F4 stratum): equal to the forward atom, different meaning
            '"a" in os_name', 'os_name in "a"', '"lin" not in sys_platform', 'sys_platform not in "lin"']
    for t in hand:
        m = P(t)
        _add(ctx, zoo, m, 10 ** 6)
    # the same atoms built directly, with and without a cached specifier view
    e1 = single.MarkerExpression("os_name", "==", "a")
    e2 = single.MarkerExpression("os_name", "==", "a", reversed=True)
    e3 = single.MarkerExpression("os_name", "==", "a")
    e3.specifier
    for e in (e1, e2, e3, M.AnyMarker(), M.AnyMarker(), M.EmptyMarker(), M.EmptyMarker()):
        _add(ctx, zoo, e, 10 ** 6)
    # compounds as the plain (non-normalising) public constructors build them - the library builds such objects
    # itself on the way to a result: no children, one child, a universal / empty child
    x_, y_ = P('os_name == "a"'), P('python_version >= "3.8"')
    for raw in (lambda: M.MultiMarker(), lambda: M.MarkerUnion(), lambda: M.MultiMarker(M.AnyMarker()),
                lambda: M.MarkerUnion(M.EmptyMarker()), lambda: M.MultiMarker(x_), lambda: M.MarkerUnion(x_),
                lambda: M.MarkerUnion(x_, M.AnyMarker()), lambda: M.MultiMarker(x_, M.EmptyMarker()),
                lambda: M.MultiMarker(x_, M.AnyMarker()), lambda: M.MarkerUnion(x_, M.EmptyMarker()),
                lambda: M.MultiMarker(x_, y_), lambda: M.MultiMarker(y_, x_), lambda: M.MarkerUnion(x_, y_),
                lambda: M.MarkerUnion(y_, x_), lambda: M.MultiMarker(x_, x_), lambda: M.MarkerUnion(M.MarkerUnion(x_, y_))):
        try:
            _add(ctx, zoo, raw(), 10 ** 6)
        except Exception:  # noqa: BLE001  (a constructor that refuses a shape is fine)
            pass
    ctx.shape("zoo:raw-constructed compounds")
    ctx.shape("pair:reversed-vs-forward", 5)
    ctx.shape("pair:group-order", 2)
    cfg = MW.Cfg()
    n = 150 if ctx.tier == "quick" else 2500
    t0 = ctx.elapsed()
    for i in range(n):
        if ctx.elapsed() - t0 > (12 if ctx.tier == "quick" else 120):
            break
        tree = MM.gen_marker_tree(rnd, cfg, 6)
        ctx.cases += 1
        ctx.current_case = {"kind": "mtree", "tree": tree}
        got = []
        MM.eval_marker_tree(ctx, tree, lambda t, v, kids: got.append(v), prop=PROP, watchdog=5.0)
        # commuted operands: equal meaning along another path
        if tree[0] in ("and", "or"):
            MM.eval_marker_tree(ctx, [tree[0], tree[2], tree[1]], lambda t, v, kids: got.append(v), prop=PROP, watchdog=5.0)
        for v in got[-4:]:
            if MM.is_marker(v):
                _add(ctx, zoo, v, 300 if ctx.tier == "quick" else 1200)
                for a in MW.walk_atoms(v)[:3]:
                    _add(ctx, zoo, a, 300 if ctx.tier == "quick" else 1200)

    def sig_of(z):
        with oracle():
            envs = MW.environments(rnd, z[:60], 40) + MW.environments(rnd, z[60:200], 40)
            out = []
            for m in z:
                vec = []
                for e in envs:
                    try:
                        vec.append(MM.ev(m, e))
                    except CaseTimeout:
                        raise
                    except Exception:  # noqa: BLE001
                        vec.append(None)
                out.append(tuple(vec))
            ctx.evaluations += len(z) * len(envs)
            return out

    def interchange(a, x, y):
        bump("interchange")
        for opn, op in (("and", lambda p, q: p & q), ("or", lambda p, q: p | q)):
            def go():
                return op(a, x), op(a, y)
            ok, res = ctx.guarded(5.0, go)
            if not ok or res is None:
                continue
            rx, ry = res
            with oracle():
                MM.equiv_check(ctx, PROP, "interchange", "x == y but a op x and a op y evaluate differently", [rx], ry,
                               lambda v: v[0], cap=30, detail={"a": MM.mtext(a), "x": repr(x), "y": repr(y), "op": opn,
                                                               "group": "interchange"})

    _check_pairs(ctx, zoo, sig_of, "marker", interchange)


def run(ctx):
    if ctx.shard == 0:  # the repository's own pinned examples as one more workload (outcomes ignored)
        from ..repotests import run_repo_tests

        run_repo_tests(ctx, ("marker", "specifier"))
    _spec_part(ctx)
    _marker_part(ctx)
    # hash / == must not depend on lazily computed state: compare with the hash recorded at first sight, and every
    # object with a freshly built twin (same text) after all the use above
    from dep_logic.markers import parse_marker
    from dep_logic.specifiers import parse_version_specifier

    for zoo, reparse in ((ctx.zoo_spec, parse_version_specifier), (ctx.zoo_mark, parse_marker)):
        for x in zoo:
            bump("hash-stability")
            h0 = ctx.zoo_hash0.get(id(x))
            try:
                if h0 is not None and hash(x) != h0:
                    violation(PROP, "hash-stability", "hash(x) changed after x was used as an operand / key",
                              {"x": repr(x), "group": "hash-drift"})
            except Exception as e:  # noqa: BLE001
                violation(PROP, "hash-stability", f"hash raised {type(e).__name__} after use", {"x": repr(x)})
    # objects built in another interpreter (own hash seed, own caches) next to locally built twins
    if ctx.shard == 0:
        from ..foreign import NAMESPACE_IMPORTS, foreign_objects

        exprs = [f"parse_version_specifier({t!r})" for t in (">=1.0", ">=1.0,<2", "==1.*", "!=1.5", "<1||>=2", "~=1.2", "", "<empty>", "===abc")] + \
                [f"GenericSpecifier({o!r}, {l!r})" for o in ("==", "!=", "in", "not in") for l in ("a", "ab", "")] + \
                [f"parse_marker({t!r})" for t in ('os_name == "a"', '"a" == os_name', 'os_name == "a" or os_name == "b"',
                                                  'os_name != "a" and os_name != "b"', 'python_version >= "3.8"',
                                                  'python_version >= "3.8" and os_name == "a"', 'extra == "x" or sys_platform == "y"',
                                                  'python_version in "3.8, 3.9"', 'python_full_version ~= "3.8.1"')] + \
                ["AnySpecifier()", "EmptySpecifier()", "RangeSpecifier()", "AnyMarker()", "EmptyMarker()"]
        far = foreign_objects(exprs)
        ns: dict = {}
        exec(NAMESPACE_IMPORTS, ns)  # noqa: S102
        n_far = 0
        for e, f in zip(exprs, far):
            if f is None:
                ctx.inconclusive["foreign-object-unavailable"] += 1
                continue
            n_far += 1
            bump("foreign-twin")
            try:
                x = eval(e, ns)  # noqa: S307
                ok = (x == f) and (f == x) and hash(x) == hash(f) and ({x: 1}.get(f) == 1) and (x in {f}) and str(x) == str(f)
            except CaseTimeout:
                raise
            except Exception as ex:  # noqa: BLE001
                violation(PROP, "foreign-twin", f"comparing with an object unpickled from another interpreter raised {type(ex).__name__}",
                          {"expression": e, "error": str(ex)[:120], "group": "foreign-raise"})
                continue
            if not ok:
                violation(PROP, "foreign-twin", "an object unpickled from another interpreter is not an equal, hash-equal twin "
                          "of the same object built here", {"expression": e, "eq": bool(x == f), "hash_eq": hash(x) == hash(f),
                                                             "group": "foreign"})
        ctx.extra["foreign_objects"] = n_far
    # copies of used objects (copy, deepcopy, pickle round trip): a copy is the clearest case of "an equal object" -
    # it must be ==, symmetric, hash-equal and found as a dict/set key of the original, whatever lazily computed
    # state the original had accumulated
    import copy
    import pickle

    for zoo in (ctx.zoo_spec, ctx.zoo_mark):
        step = max(1, len(zoo) // (150 if ctx.tier == "quick" else 600))
        for x in zoo[::step]:
            for how, mk in (("copy", copy.copy), ("deepcopy", copy.deepcopy), ("pickle", lambda o: pickle.loads(pickle.dumps(o)))):
                bump("copy-twin")
                try:
                    y = mk(x)
                    ok = (x == y) and (y == x) and hash(x) == hash(y) and ({x: 1}.get(y) == 1) and (y in {x}) \
                        and type(y) is type(x) and str(y) == str(x)
                except CaseTimeout:
                    raise
                except Exception as e:  # noqa: BLE001
                    violation(PROP, "copy-twin", f"{how} of a used object / comparing with it raised {type(e).__name__}",
                              {"x": repr(x)[:300], "error": str(e)[:120], "group": "copy-raise"})
                    continue
                if not ok:
                    violation(PROP, "copy-twin", f"a {how} of an object is not an equal, hash-equal, interchangeable twin of it",
                              {"x": repr(x)[:300], "y": repr(y)[:300], "eq": bool(x == y), "hash_eq": hash(x) == hash(y),
                               "group": "copy/" + how})
    ctx.extra["zoo_specifiers"] = len(ctx.zoo_spec)
    ctx.extra["zoo_markers"] = len(ctx.zoo_mark)
    if len(ctx.samples) < 4:
        ctx.sample({"specifier_zoo_example": [repr(x) for x in ctx.zoo_spec[:6]]})
        ctx.sample({"marker_zoo_example": [repr(x) for x in ctx.zoo_mark[:6]]})
    ctx.current_case = None


def replay(ctx, case):
    if isinstance(case, dict) and case.get("kind") == "repo-test":
        from ..repotests import run_repo_tests

        run_repo_tests(ctx, nodeid=case["nodeid"])
        return
    # zoo checks are not case-local: re-run the whole (seeded) shard workload
    run(ctx)
