"""C16 - widening a target never loses wheels; compare() is consistent with tag inclusion.

Deciding monitors: (1) post-condition on every EnvSpec.compare call - the monitor itself issues
the reverse call and reads both platforms' tag sets: reflexive, INCOMPATIBLE symmetric, never
HIGHER both ways, LOWER_OR_EQUAL/HIGHER => nested tag sets; (2) relational monitor on
EnvSpec.compatibility over spec pairs (A, B) equal but for requires_python(A) subset of
requires_python(B) (subset decided exactly with the interval model): compatible with A =>
compatible with B; (3) newer release of the same OS/arch accepts every tag of the older one.
"""
from __future__ import annotations

import itertools

from ..models import intervals as iv
from ..monitor import bump, install, oracle, violation

PROP = "C16"
ANCHORS = ['dep_logic.tags.tags:EnvSpec.compare', 'dep_logic.tags.tags:EnvSpec.compatibility', 'dep_logic.tags.tags:EnvSpec._evaluate_python']
RULE = ("Grid: requires_python pool (ranges, holes, unions, points, universal) x platform pool (none; manylinux "
        "2.5/2.17/2.28/2.31 x86_64+aarch64; musllinux 1.1/1.2; macOS 10.9/10.15/11.0/12.3/14.0 x86_64 and "
        "11.0/12.0/14.0 arm64; windows x3) x implementation (none, cpython, cpython-ft, pypy). compare(): all ordered "
        "pairs (quick: sampled). Monotonicity: all pairs rp(A) subset rp(B) x wheel universe (python tags x abi tags x "
        "platform tag any / one accepted / one foreign). Platform nesting: all pairs older/newer of one OS/arch from "
        "the C09 grid. Non-trivial/distinct: pairs with different platforms of one OS class, or strictly nested "
        "requires_python."
        " Derived specs: the wider spec is built with dataclasses.replace from an already used narrower one (requires_python and platform clauses).")
ASSUMPTIONS = [
    "subset of requires_python is decided structurally on critical points (exact)",
    "relational (metamorphic) oracle only: no external reference",
]
MIN_EVENTS = {"EnvSpec.compare": 5000, "rp-monotonic": 5000, "platform-nesting": 500}
MIN_SHAPES = {"compare:INCOMPATIBLE": 100, "compare:LOWER_OR_EQUAL": 100, "compare:HIGHER": 50}
SHARDS = {"quick": 4, "thorough": 16}

RPS = ["", ">=3.8", ">=3.8,<3.11", "==3.9.*", "!=3.10.*", ">=3.7,!=3.9.*", "<3.0", "==3.8.10", ">=3", ">=4", "~=3.8",
       "<3.6||>=3.9", ">=3.10", "<3.10", ">=3.9", ">=3.9,<3.10", ">=2.7,!=3.0.*,!=3.1.*", "==3.12.*", ">=3.9.2,<3.9.7",
       ">3.8.5"]
PLATS = [None, "linux", "manylinux_2_5_x86_64", "manylinux_2_28_x86_64", "manylinux_2_17_aarch64", "manylinux_2_31_aarch64",
         "musllinux_1_1_x86_64", "musllinux_1_2_x86_64", "musllinux_1_2_aarch64", "macos_10_9_x86_64", "macos_10_15_x86_64",
         "macos_11_0_x86_64", "macos_14_0_x86_64", "macos_11_0_arm64", "macos_14_0_arm64", "macos_12_3_arm64",
         "macos_12_0_arm64", "windows_amd64", "windows_x86", "windows_arm64", "manylinux_2_17_x86_64", "macos_11_3_x86_64"]
IMPLS = [None, ("cpython", False), ("cpython", True), ("pypy", False)]
PYTAGS = ["cp38", "cp39", "cp310", "cp312", "py3", "py2", "py38", "pp310", "cp27", "py2.py3", "cp313", "py310"]
ABIS = ["none", "abi3", "cp38", "cp39", "cp310", "cp312", "cp312t", "cp27mu", "pypy310_pp73", "cp313t", "cp313"]


def _mk(rp, pl, im):
    from dep_logic.tags import EnvSpec

    return EnvSpec.from_spec(rp, pl, im[0] if im else None, im[1] if im else False)


def setup(ctx):
    import dep_logic.tags.tags as T

    EC = T.EnvCompatibility

    def post_compare(args, kwargs, r):
        a, b = args[0], args[1]
        ctx.evaluations += 1
        ctx.shape("compare:" + r.name)
        ba = b.compare(a)
        d = {"a": str(a), "b": str(b), "a.compare(b)": r.name, "b.compare(a)": ba.name}
        if a == b and r != EC.LOWER_OR_EQUAL:
            violation(PROP, "EnvSpec.compare", "compare is not reflexive", {**d, "group": "reflexive"})
        if (r == EC.INCOMPATIBLE) != (ba == EC.INCOMPATIBLE):
            violation(PROP, "EnvSpec.compare", "INCOMPATIBLE is not symmetric", {**d, "group": "symmetric"})
        if r == EC.HIGHER and ba == EC.HIGHER:
            violation(PROP, "EnvSpec.compare", "HIGHER in both directions", {**d, "group": "both-higher"})
        if a.platform is not None and b.platform is not None and r != EC.INCOMPATIBLE:
            ta, tb = set(a.platform.compatible_tags), set(b.platform.compatible_tags)
            if a.platform != b.platform:
                ctx.nontrivial("cmp", str(a), str(b))
            if r == EC.LOWER_OR_EQUAL and not ta <= tb:
                violation(PROP, "EnvSpec.compare", "LOWER_OR_EQUAL but the platform tag sets are not nested",
                          {**d, "only_in_a": sorted(ta - tb)[:5], "group": "loe-nesting"})
            if r == EC.HIGHER and not tb <= ta:
                violation(PROP, "EnvSpec.compare", "HIGHER but the platform tag sets are not nested",
                          {**d, "only_in_b": sorted(tb - ta)[:5], "group": "higher-nesting"})

    install(T.EnvSpec, "compare", post_compare)


def _subset(a, b) -> bool:
    pts = iv.points(a, b)
    return all((not x) or y for x, y in zip(iv.vector(a, pts), iv.vector(b, pts)))


def run(ctx):
    if ctx.shard == 0:  # the repository's own pinned examples as one more workload (outcomes ignored)
        from ..repotests import run_repo_tests

        run_repo_tests(ctx, ("tags",))
    from dep_logic.specifiers import parse_version_specifier as P
    from dep_logic.tags import Platform

    rnd = ctx.rnd
    full = ctx.tier == "thorough"
    keys = list(itertools.product(RPS, PLATS, IMPLS))
    specs = [(k, _mk(*k)) for k in keys]
    # (1) compare over ordered pairs
    pairs = list(itertools.product(range(len(specs)), repeat=2))
    step = ctx.nshards if full else ctx.nshards * 12
    off = ctx.shard if full else ctx.shard + ctx.nshards * (ctx.seed % 12)
    for idx in range(off, len(pairs), step):
        i, j = pairs[idx]
        (ka, a), (kb, b) = specs[i], specs[j]
        ctx.cases += 1
        ctx.current_case = {"kind": "compare", "a": ka, "b": kb}
        try:
            a.compare(b)
        except Exception as e:  # noqa: BLE001
            violation(PROP, "EnvSpec.compare", f"raised {type(e).__name__}", {"a": str(a), "b": str(b), "error": str(e)[:100]})
    # (2) monotonicity in requires_python
    alltags = sorted({t for _, s in specs if s.platform for t in s.platform.compatible_tags})
    rp_specs = {rp: P(rp) for rp in RPS}
    sub_pairs = [(x, y) for x in RPS for y in RPS if _subset(rp_specs[x], rp_specs[y])]
    combos = [(x, y, pl, im) for (x, y) in sub_pairs for pl in PLATS[:9] + PLATS[12:14] for im in IMPLS]
    step = ctx.nshards if full else ctx.nshards * 10
    off = ctx.shard if full else ctx.shard + ctx.nshards * (ctx.seed % 10)
    for idx in range(off, len(combos), step):
        rpa, rpb, pl, im = combos[idx]
        A, B = _mk(rpa, pl, im), _mk(rpb, pl, im)
        ctx.cases += 1
        if rpa != rpb:
            ctx.nontrivial("mono", rpa, rpb, pl, im)
        ok_tags = A.platform.compatible_tags if A.platform else ["any"]
        for pt, abi in itertools.product(PYTAGS, ABIS):
            for plat in (["any"], [rnd.choice(ok_tags)], [rnd.choice(alltags)]):
                ctx.evaluations += 1
                bump("rp-monotonic")
                ca = A.compatibility(pt.split("."), [abi], plat)
                cb = B.compatibility(pt.split("."), [abi], plat)
                if ca is not None and cb is None:
                    violation(PROP, "rp-monotonic", "a wheel compatible with A is lost by the wider spec B",
                              {"A": str(A), "B": str(B), "wheel": [pt, abi, plat], "score_A": ca, "group": "mono"},
                              case={"kind": "mono", "rpa": rpa, "rpb": rpb, "pl": pl, "im": im, "wheel": [pt, abi, plat]})
                if len(ctx.samples) < 3 and ca is not None and rpa != rpb:
                    ctx.sample({"A": str(A), "B": str(B), "wheel": [pt, abi, plat], "A_score": ca, "B_score": cb})
    # (2b) the wider spec is *derived* from another, already used, spec with dataclasses.replace (per-object state
    # must not travel with the copy); A is built independently.  Both clauses: requires_python and platform release.
    import dataclasses

    newer_of = {"manylinux_2_17_x86_64": "manylinux_2_28_x86_64", "manylinux_2_17_aarch64": "manylinux_2_35_aarch64",
                "musllinux_1_1_x86_64": "musllinux_1_2_x86_64", "macos_11_0_arm64": "macos_14_0_arm64",
                "macos_10_9_x86_64": "macos_12_0_x86_64"}
    n_der = 0
    for idx in range(off, len(combos), step * 3):
        rpa, rpb, pl, im = combos[idx]
        rpn = rnd.choice(RPS)
        try:
            N = _mk(rpn, pl, im)
        except Exception:  # noqa: BLE001
            continue
        A = _mk(rpa, pl, im)
        ok_tags = A.platform.compatible_tags if A.platform else ["any"]
        wheels = [(pt.split("."), [abi], plat) for pt, abi in itertools.product(PYTAGS, ABIS)
                  for plat in (["any"], [rnd.choice(ok_tags)])]
        for w in wheels:
            N.compatibility(*w)          # N answers first (and may remember its answers)
        B = dataclasses.replace(N, requires_python=P(rpb))
        ctx.cases += 1
        n_der += 1
        for w in wheels:
            ctx.evaluations += 1
            bump("rp-monotonic-derived")
            ca, cb = A.compatibility(*w), B.compatibility(*w)
            if ca is not None and cb is None:
                violation(PROP, "rp-monotonic", "a wheel compatible with A is lost by the wider spec B (B derived with "
                          "dataclasses.replace from a spec that had been used)",
                          {"A": str(A), "B": str(B), "derived_from": str(N), "wheel": list(w), "score_A": ca, "group": "mono-derived"},
                          case={"kind": "mono-derived"})
        # platform clause: B = N moved to a newer release of the same OS/arch
        if pl in newer_of and A.platform is not None:
            older_tags = A.platform.compatible_tags
            N2 = _mk(rpa, pl, im)
            pw = [(["py3"], ["none"], [t]) for t in rnd.sample(older_tags, min(len(older_tags), 12))]
            newer = Platform.parse(newer_of[pl])
            extra = [(["py3"], ["none"], [t]) for t in rnd.sample(newer.compatible_tags, min(6, len(newer.compatible_tags)))]
            for w in pw + extra:
                N2.compatibility(*w)
            B2 = dataclasses.replace(N2, platform=newer)
            for w in pw + extra:
                ctx.evaluations += 1
                bump("platform-monotonic-derived")
                ca, cb = A.compatibility(*w), B2.compatibility(*w)
                fresh = _mk(rpa, newer_of[pl], im).compatibility(*w)
                if (ca is not None and cb is None) or (cb is None) != (fresh is None):
                    violation(PROP, "platform-nesting", "a spec moved to a newer platform release with dataclasses.replace "
                              "answers differently from a freshly built one / loses a tag of the older release",
                              {"A": str(A), "B": str(B2), "wheel": list(w), "score_A": ca, "score_B": cb, "fresh_B": fresh,
                               "group": "nest-derived"}, case={"kind": "mono-derived"})
    ctx.extra["derived_spec_cases"] = n_der
    # (3) newer platform release accepts every tag of the older one (whole C09 grid, same os/arch)
    from .c09 import grid

    fam = {}
    for os_, major, minor, arch, text in grid():
        if os_ == "macos" and major == 10 and arch == "arm64":
            continue  # never shipped; its defect is C09's known finding F11 and it is not in this grid
        fam.setdefault((os_, arch), []).append(((major, minor), text))
    fams = sorted(fam.items())
    for fi, ((os_, arch), members) in enumerate(fams):
        if fi % ctx.nshards != ctx.shard:
            continue
        members.sort()
        tagsets = [(v, t, set(Platform.parse(t).compatible_tags)) for v, t in members]
        for (va, ta, sa), (vb, tb, sb) in itertools.combinations(tagsets, 2):
            if not full and rnd.random() < 0.5:
                continue
            ctx.evaluations += 1
            bump("platform-nesting")
            if not sa <= sb:
                violation(PROP, "platform-nesting", "a newer release of the same OS/arch rejects a tag of the older one",
                          {"older": ta, "newer": tb, "lost": sorted(sa - sb)[:5], "group": f"nest/{os_}"},
                          case={"kind": "nest", "older": ta, "newer": tb})
    ctx.current_case = None


def replay(ctx, case):
    if isinstance(case, dict) and case.get("kind") == "repo-test":
        from ..repotests import run_repo_tests

        run_repo_tests(ctx, nodeid=case["nodeid"])
        return
    from dep_logic.tags import Platform

    if case["kind"] == "mono-derived":   # sequence-dependent: the shard's workload is repeated as a whole
        run(ctx)
        return
    if case["kind"] == "compare":
        a, b = _mk(*[tuple(x) if isinstance(x, list) else x for x in case["a"]]), _mk(*[tuple(x) if isinstance(x, list) else x for x in case["b"]])
        a.compare(b)
    elif case["kind"] == "mono":
        im = tuple(case["im"]) if case["im"] else None
        A, B = _mk(case["rpa"], case["pl"], im), _mk(case["rpb"], case["pl"], im)
        pt, abi, plat = case["wheel"]
        ca, cb = A.compatibility(pt.split("."), [abi], plat), B.compatibility(pt.split("."), [abi], plat)
        if ca is not None and cb is None:
            violation(PROP, "rp-monotonic", "a wheel compatible with A is lost by the wider spec B",
                      {"A": str(A), "B": str(B), "wheel": case["wheel"], "score_A": ca})
    else:
        sa, sb = set(Platform.parse(case["older"]).compatible_tags), set(Platform.parse(case["newer"]).compatible_tags)
        if not sa <= sb:
            violation(PROP, "platform-nesting", "a newer release of the same OS/arch rejects a tag of the older one",
                      {"older": case["older"], "newer": case["newer"], "lost": sorted(sa - sb)[:5]})
