"""Shared marker workload: operation trees (parse, &, |, only, exclude, without_extras, re-parse of
str()) over merge-heavy vocabularies, with a reachability closure and the small-scope strata."""
from __future__ import annotations

import itertools

from .. import markermon as MM
from ..workloads import markers as MW


def mentioned(tree) -> list:
    import re

    found = re.findall(r"\b(os_name|sys_platform|platform_machine|platform_system|implementation_name|"
                       r"platform_python_implementation|python_version|python_full_version|platform_release|extra)\b",
                       MW.tree_text(tree))
    return list(dict.fromkeys(found))


def wrap_unary(rnd, tree, names_pool):
    m = mentioned(tree)
    if m and rnd.random() < 0.8:
        names_pool = m
    k = rnd.random()
    if k < 0.3:
        names = rnd.sample(names_pool, rnd.randint(1, min(3, len(names_pool))))
        return ["only", tree, names]
    if k < 0.6:
        return ["exclude", tree, rnd.choice(names_pool)]
    if k < 0.75:
        return ["noextras", tree]
    return ["str", tree]


ALLNAMES = MW.STRVARS + ["python_version", "python_full_version", "platform_release", "extra"]


def gen_tree(rnd, cfg, max_atoms, closure, unary_p):
    t = MM.gen_marker_tree(rnd, cfg, max_atoms, closure)
    if rnd.random() < unary_p:
        t = wrap_unary(rnd, t, ALLNAMES)
        if rnd.random() < 0.2:
            t = [rnd.choice(["and", "or"]), t, ["m", MW.atom(rnd, cfg)]]
    return t


def small_scope_trees(ctx):
    """The exhaustive strata shared by C07/C12/C15: string triples, python pairs, extra triples."""
    atoms = [f'os_name {op} "{lit}"' for op in ("==", "!=", "in", "not in") for lit in ("a", "b", "ab", "")]
    for x, y, z in itertools.product(atoms, repeat=3):
        for o1, o2 in (("and", "or"), ("or", "and"), ("and", "and"), ("or", "or")):
            yield [o2, [o1, ["m", x], ["m", y]], ["m", z]]
    # group x group and group x atom on one variable (0, 1, 2 shared values)
    groups = [f'os_name == "{p}" or os_name == "{q}"' for p, q in (("a", "b"), ("b", "ab"), ("a", "ab"), ("ab", ""), ("b", "a"))] + \
             [f'os_name != "{p}" and os_name != "{q}"' for p, q in (("a", "b"), ("b", "ab"), ("a", ""), ("ab", ""), ("b", "a"))] + \
             ['os_name == "a" or os_name == "b" or os_name == "ab"', 'os_name != "a" and os_name != "b" and os_name != "ab"']
    for g1, g2 in itertools.product(groups, repeat=2):
        yield ["and", ["m", g1], ["m", g2]]
        yield ["or", ["m", g1], ["m", g2]]
        yield ["or", ["and", ["m", g1], ["m", 'sys_platform == "x"']], ["and", ["m", g2], ["m", 'sys_platform == "y"']]]
        yield ["and", ["or", ["m", g1], ["m", 'sys_platform == "x"']], ["or", ["m", g2], ["m", 'sys_platform == "y"']]]
    for g in groups:
        for x in atoms:
            yield ["and", ["m", g], ["m", x]]
            yield ["or", ["m", g], ["m", x]]
            yield ["or", ["m", x], ["m", g]]
    if getattr(ctx, "small_scope_revin", False):
        # literal-on-the-left in / not in atoms against groups and atoms of the same variable (structure only: their
        # meaning is the subject of known finding F4, so only the check that looks at shapes asks for them)
        rev = [f'"{lit}" {op} os_name' for op in ("in", "not in") for lit in ("a", "b", "ab", "")]
        for g in groups:
            for x in rev:
                yield ["and", ["m", g], ["m", x]]
                yield ["and", ["m", x], ["m", g]]
                yield ["or", ["m", g], ["m", x]]
                yield ["or", ["m", x], ["m", g]]
        for x, y in itertools.product(rev, atoms + rev):
            yield ["and", ["m", x], ["m", y]]
            yield ["or", ["m", x], ["m", y]]
            yield ["or", ["m", y], ["m", x]]
    pa = []
    for var, vals in (("python_version", ["3.7", "3.8", "3.10", "3"]), ("python_full_version", ["3.7.9", "3.8.0", "3.8"])):
        for v in vals:
            for op in ("==", "!=", "<", "<=", ">", ">="):
                pa.append(f'{var} {op} "{v}"')
            if "." in v:
                pa.append(f'{var} ~= "{v}"')
            pa.append(f'{var} == "{v}.*"')
            pa.append(f'"{v}" <= {var}')
    for x, y in itertools.product(pa, repeat=2):
        yield ["and", ["m", x], ["m", y]]
        yield ["or", ["m", x], ["m", y]]
    yield from resolution_trees()
    yield from contradiction_trees()
    yield from factored_extra_trees()
    ea = [f'extra {op} "{n}"' for op in ("==", "!=") for n in ("a", "b", "Foo_Bar")]
    for x, y, z in itertools.product(ea, repeat=3):
        yield ["or", ["and", ["m", x], ["m", y]], ["m", z]]
        yield ["and", ["or", ["m", x], ["m", y]], ["m", z]]
    # two variables, mixed
    mix = ['os_name == "a"', 'os_name != "a"', 'os_name in "xy"', 'python_version >= "3.8"', 'python_version < "3.8"',
           'extra == "a"', 'sys_platform == "linux"', 'sys_platform != "linux"', 'os_name == "b"']
    for x, y, z, u in itertools.product(mix, repeat=4):
        yield ["and", ["or", ["m", x], ["m", y]], ["or", ["m", z], ["m", u]]]
        yield ["or", ["and", ["m", x], ["m", y]], ["and", ["m", z], ["m", u]]]
        # shared sub-terms between the operands (union_simplify / intersect_simplify paths)
        yield ["and", ["or", ["m", x], ["m", y]], ["or", ["and", ["m", x], ["m", z]], ["m", u]]]
        yield ["or", ["and", ["m", x], ["m", y]], ["and", ["or", ["m", x], ["m", z]], ["m", u]]]
        yield ["and", ["m", z], ["or", ["and", ["m", x], ["m", y]], ["m", u]]]
        # variable elimination on nested shapes
        nx, nz = x.split()[0], z.split()[0]
        yield ["exclude", ["and", ["and", ["or", ["m", x], ["m", y]], ["m", z]], ["m", u]], nx]
        yield ["exclude", ["or", ["or", ["and", ["m", x], ["m", y]], ["m", z]], ["m", u]], nx]
        yield ["only", ["and", ["and", ["or", ["m", x], ["m", y]], ["m", z]], ["m", u]], [nz]]
        yield ["only", ["or", ["or", ["and", ["m", x], ["m", y]], ["m", z]], ["m", u]], [nz, nx]]
        # (x and z and u) or (y and z and u): union() may pick the factored form  z and u and (x or y)
        fact = ["or", ["and", ["and", ["m", x], ["m", z]], ["m", u]], ["and", ["and", ["m", y], ["m", z]], ["m", u]]]
        yield ["exclude", fact, nx]
        yield ["only", fact, [nz]]
        # depth 3: Or(And(z, Or(x, y)), u) - the eliminated variable only inside the inner union
        deep = ["or", ["or", ["and", ["m", x], ["m", z]], ["and", ["m", y], ["m", z]]], ["m", u]]
        yield ["exclude", deep, nx]
        yield ["only", deep, [nz, u.split()[0]]]
        yield ["noextras", deep]
        deep2 = ["and", ["and", ["or", ["m", x], ["m", z]], ["or", ["m", y], ["m", z]]], ["m", u]]
        yield ["exclude", deep2, nx]
        yield ["only", deep2, [nz]]


def order_twin(rnd, tree, p=1.0):
    """The same expression with the operands of every commutative node exchanged (with probability p):
    equal as a set of environments and - after normalisation - structurally equal, but every value
    set / child tuple is first met in another order."""
    if not isinstance(tree, list) or not tree:
        return tree
    if tree[0] in ("and", "or") and len(tree) == 3:
        a, b = order_twin(rnd, tree[1], p), order_twin(rnd, tree[2], p)
        return [tree[0], b, a] if rnd.random() < p else [tree[0], a, b]
    if tree[0] in ("only", "exclude", "noextras", "str"):
        return [tree[0], order_twin(rnd, tree[1], p)] + list(tree[2:])
    return tree


_BALLAST_VARS = ["sys_platform", "platform_machine", "implementation_name", "platform_system",
                 "platform_python_implementation", "platform_version", "os_name"]


def _chain(op, items):
    t = items[0]
    for x in items[1:]:
        t = [op, t, x]
    return t


def ballast(rnd, outer, k, tag):
    """k two-way alternatives over 2k distinct variables joined by `outer` (a k-clause CNF for outer='and',
    a k-term DNF for 'or'), then combined with itself: such children only come into existence as
    *results* of an earlier | or &."""
    inner = "or" if outer == "and" else "and"
    vs = rnd.sample(_BALLAST_VARS[:-1], min(2 * k, 6))
    while len(vs) < 2 * k:
        vs.append(vs[len(vs) % 6])
    clauses = [[inner, ["m", f'{vs[2 * i]} == "{tag}{i}"'], ["m", f'{vs[2 * i + 1]} == "{tag}{i}x"']] for i in range(k)]
    b = _chain(outer, clauses)
    return [inner, b, b]


def twin_trees(rnd, n, kmax=3):
    """Order twins in different operands: a group (or a small compound) G on one side, the same G with its
    values/children in another order on the other, with self-combined ballast that makes the un-normalised
    candidate of union()/intersection() the cheapest one."""
    lits = ["a", "b", "ab", "c"]
    for i in range(n):
        outer = rnd.choice(["and", "or"])           # shape of the ballast
        top = "or" if outer == "and" else "and"     # the operator under test
        var = rnd.choice(["os_name", "sys_platform", "extra", "platform_machine"])
        vals = rnd.sample(lits, rnd.choice([2, 2, 3]))
        if rnd.random() < 0.7:
            gop, gjoin = ("==", "or") if top == "or" else ("!=", "and")
        else:
            gop, gjoin = ("!=", "and") if top == "or" else ("==", "or")
        g = _chain(gjoin, [["m", f'{var} {gop} "{v}"'] for v in vals])
        perm = vals[:]
        while perm == vals:
            rnd.shuffle(perm)
        if rnd.random() < 0.5:
            g2 = _chain(gjoin, [["m", f'{var} {gop} "{v}"'] for v in perm])
        else:  # one text: the parser builds the group
            g2 = ["m", f" {gjoin} ".join(f'{var} {gop} "{v}"' for v in perm)]
        shape = i % 6
        # sizes are bounded by the library's own cost: a self-combined 4-clause ballast alone takes > 20 s,
        # and two ballasts of 3 + 2 clauses in one expression likewise
        k = 2 if shape in (2, 3) or kmax < 3 else rnd.choice([2, 3, 3])
        b1, b2 = ballast(rnd, outer, k, "s"), ballast(rnd, outer, 2, "t")
        x = [top, g, b1]
        if shape == 0:
            yield [top, x, g2]
        elif shape == 1:
            yield [top, g2, x]
        elif shape == 2:
            yield [top, x, [top, g2, b2]]
        elif shape == 3:
            yield [top, [top, g2, b2], x]
        elif shape == 4:
            yield [top, [top, b1, g], [top, b1, g2]]
        else:
            yield [outer, [top, [top, x, g2], ["m", 'python_version >= "3.8"']], ["m", f'{var} {gop} "{vals[0]}"']]


def wide_trees(rnd, n):
    """Compounds with 33-70 direct children (long platform lists of a lock file, long exclusion chains): only
    shapes whose cost stays linear - a union of conjunctions read by the parser, a conjunction of version
    exclusions - under only/exclude/without_extras, & with an atom / another wide union, and re-rendering.
    (`|` on such a union and a wide conjunction of alternatives are exponential in the library itself.)"""
    svars = ["sys_platform", "platform_machine", "os_name", "implementation_name", "platform_system"]
    for i in range(n):
        k = rnd.choice([33, 34, 40, 47, 63, 65, 70])
        v1, v2, v3 = rnd.sample(svars, 3)
        kind = i % 4
        if kind == 0:
            text = " or ".join(f'({v1} == "p{j}" and {v2} == "a{j}")' for j in range(k))
        elif kind == 1:
            text = " or ".join((f'({v1} == "p{j}" and {v2} == "a{j}" and extra == "e{j % 5}")' if j % 3 else
                                f'({v1} == "p{j}" and {v3} != "z{j}")') for j in range(k))
        elif kind == 2:
            var = rnd.choice(["python_version", "python_full_version"])
            lits = [f"3.{j}" if var == "python_version" else f"3.{j % 13}.{j}" for j in range(k)]
            text = " and ".join([f'{var} != "{x}"' for x in lits] + [f'{v1} != "p0"', f'{v2} == "a1"'][:rnd.randint(0, 2)])
        else:
            text = " or ".join(f'({v1} == "p{j}" and python_version >= "3.{j % 12}" and {v2} != "a{j}")' for j in range(k))
        w = ["m", text]
        names = [x for x in (v1, v2, v3, "extra", "python_version", "python_full_version") if x in text]
        ops = [["only", w, [names[0]]], ["only", w, names[:2]], ["only", w, names], ["exclude", w, names[0]],
               ["exclude", w, names[-1]], ["exclude", w, "platform_release"], ["noextras", w], ["str", w]]
        if kind in (0, 2):   # (with extras / three-atom alternatives the library's & is already exponential)
            ops += [["and", w, ["m", f'{v3} == "q"']], ["and", ["m", f'{v1} != "p{k - 1}"'], w],
                    ["only", ["and", w, ["m", f'{v3} == "q"']], [v3, names[0]]],
                    ["exclude", ["and", w, ["m", f'{v3} == "q"']], v3]]
        if kind == 2:
            ops += [["and", w, ["m", 'python_version >= "3.5"']]]
        for t in rnd.sample(ops, 5):
            yield t


_FLAT_NAMES = ["os_name", "sys_platform", "platform_machine", "platform_system", "implementation_name",
               "platform_python_implementation", "platform_version", "implementation_version"]


def _flat_union(rnd, tag, k, extra=None):
    # distinct variables first (alternatives on one variable would merge into a single group child)
    names = rnd.sample(_FLAT_NAMES, min(k - (1 if extra else 0), len(_FLAT_NAMES)))
    atoms = [["m", f'{n} == "{tag}{i}"'] for i, n in enumerate(names)]
    if extra:
        atoms.insert(rnd.randrange(len(atoms) + 1), ["m", f'extra == "{extra}"'])
    while len(atoms) < k:
        n = rnd.choice(_FLAT_NAMES)
        atoms.append(["m", f'{n} != "{tag}x{len(atoms)}"'] if rnd.random() < 0.3 else ["m", f'python_version == "3.{len(atoms)}"'])
    return _chain("or", atoms)


def heavy_trees(rnd, n, first=0, ks=(7, 9, 9)):
    """Sizes at which the library switches from 'instant' to 'seconds': (a) an intersection of three flat k-way
    unions (term products of 500-700 combinations) with one `extra` alternative in each operand - extras are the
    one variable for which two different `==` atoms can hold together; (b) a union over more than ten distinct
    atoms that contains a conjunction and its operand-order twin in different operands."""
    for i in range(first, first + n):
        if i % 2 == 0:
            k = rnd.choice(list(ks))
            a, b, c = (_flat_union(rnd, t, k, e) for t, e in (("a", "x"), ("b", "y"), ("c", "z")))
            yield rnd.choice([["and", ["and", a, b], c], ["and", c, ["and", a, b]], ["and", ["and", a, c], ["and", b, c]]])
        else:
            v = rnd.sample(_FLAT_NAMES, 3)
            g = _chain("and", [["m", f'{x} == "g{j}"'] for j, x in enumerate(v)][:rnd.choice([2, 3])])
            g2 = order_twin(rnd, g, 1.0)
            flat = _flat_union(rnd, "f", rnd.choice([9, 10, 12]), rnd.choice([None, "x"]))
            yield rnd.choice([["or", ["or", g, g2], flat], ["or", g, ["or", g2, flat]], ["or", ["or", g, flat], g2],
                              ["or", ["or", flat, g], ["or", g2, ["m", 'python_version >= "3.8"']]]])


def size_strata(ctx, run_tree, light=False):
    """Order twins, wide compounds and heavy term products (each with its own time cap).  light: for checks whose
    per-call oracles make every case several times dearer (fewer cases, two-clause ballast only)."""
    rnd = ctx.rnd
    q = ctx.tier == "quick"
    ctx.stratum = "twins"
    n_tw = 0
    t_tw = ctx.elapsed()
    for t in twin_trees(rnd, (8 if light else 24) if q else (150 if light else 400), kmax=2 if light else 3):
        if ctx.elapsed() - t_tw > ((10 if light else 20) if q else (100 if light else 200)):
            break
        run_tree(t)
        n_tw += 1
    ctx.extra["order_twin_cases"] = n_tw
    ctx.extra["order_twin_seconds"] = round(ctx.elapsed() - t_tw, 1)
    ctx.stratum = "wide"
    n_w = 0
    t_w = ctx.elapsed()
    for t in wide_trees(rnd, (2 if light else 4) if q else 60):
        if ctx.elapsed() - t_w > (15 if ctx.tier == "quick" else 200):
            break
        run_tree(t)
        n_w += 1
    ctx.extra["wide_compound_cases"] = n_w
    ctx.extra["wide_compound_seconds"] = round(ctx.elapsed() - t_w, 1)
    ctx.stratum = "heavy"
    n_h = 0
    t_h = ctx.elapsed()
    ctx.watchdog_floor = 45.0
    ctx.boundary_only = True
    try:
        # (the 9-way products - 500+ children - are C02's in the quick tier; the other checks pay per child)
        for t in heavy_trees(rnd, 1 if q else 16, first=ctx.shard + ctx.seed, ks=(7, 9, 9) if (light or not q) else (6, 7)):
            if ctx.elapsed() - t_h > (40 if q else (150 if light else 300)):
                break
            run_tree(t)
            n_h += 1
    finally:
        ctx.watchdog_floor = 0
        ctx.boundary_only = False
    ctx.extra["heavy_cases"] = n_h
    ctx.extra["heavy_seconds"] = round(ctx.elapsed() - t_h, 1)
    ctx.stratum = "main"


def resolution_trees():
    """Clause sets on which the simplifiers perform a resolution / consensus step when a variable is eliminated:
    (X or p or e1) and (X or q or e2) [and (e1 or e2)] [and y] with p & q empty, X an atom or a group, e1/e2 atoms of
    the variable that is then excluded - and the dual DNF shape - as parsed, self-combined (m | m, m & m), and then
    under exclude / only / without_extras."""
    Xs = ['os_name == "a"', 'os_name == "a" or os_name == "b"', 'os_name != "a" and os_name != "b"', 'os_name in "ab"']
    PQ = [('sys_platform == "linux"', 'sys_platform == "win32"'), ('python_version < "3.8"', 'python_version >= "3.8"'),
          ('sys_platform == "s"', 'sys_platform != "s"')]
    Es = [("extra", 'extra == "e1"', 'extra == "e2"'), ("platform_machine", 'platform_machine == "m1"', 'platform_machine == "m2"')]
    Ys = [None, 'implementation_name == "cpython"', 'python_full_version >= "3.6.1"']
    for X, (p, q), (ev, e1, e2), y, with_e, dual in itertools.product(Xs, PQ, Es, Ys, (True, False), (False, True)):
        inner, outer = (" or ", " and ") if not dual else (" and ", " or ")
        if dual:   # groups keep their own connective inside parentheses
            X_ = f"({X})"
            p, q = q, p
        else:
            X_ = f"({X})"
        clauses = [f"({inner.join([X_, p, e1])})", f"({inner.join([X_, q, e2])})"]
        if with_e:
            clauses.append(f"({inner.join([e1, e2])})")
        if y:
            clauses.append(y)
        m = ["m", outer.join(clauses)]
        others = [v for v in ("os_name", "sys_platform", "python_version", "implementation_name", "python_full_version",
                              "extra", "platform_machine") if v != ev and v in m[1]]
        for base in (m, ["or", m, m], ["and", m, m]):
            yield ["exclude", base, ev]
            yield ["only", base, others]
            if ev == "extra":
                yield ["noextras", base]
            yield ["exclude", ["exclude", base, ev], "sys_platform"]


def contradiction_trees():
    """Alternatives that share an atom and are contradictions the pairwise rules cannot see (`v == "a" and v not in
    "a b"`: the string algebra has no rule for == against not in / in), so that the simplifiers produce an EMPTY (dual:
    universal) intermediate in the middle of a fixed-point loop - with a further alternative before / after it."""
    v = "sys_platform"
    shared = [f'{v} not in "a b"', f'{v} in "zz"', f'{v} not in "ab"']
    eqs = [f'{v} == "a"', f'{v} == "b"', f'{v} == "ab"']
    thirds = ['os_name == "nt"', 'python_version >= "3.8"', 'os_name == "nt" and python_version < "3.8"']
    for c, (x, y), third in itertools.product(shared, itertools.permutations(eqs, 2), thirds):
        alts = [f"{x} and {c}", f"{y} and {c}"]
        for order in ([*alts, third], [third, *alts], [alts[0], third, alts[1]]):
            yield ["m", " or ".join(f"({a})" for a in order)]
        yield ["or", ["or", ["and", ["m", x], ["m", c]], ["and", ["m", y], ["m", c]]], ["m", third]]
        yield ["or", ["m", third], ["or", ["and", ["m", c], ["m", x]], ["and", ["m", y], ["m", c]]]]
        yield ["noextras", ["m", " or ".join(f"({a})" for a in [*alts, third, 'extra == "e"'])]]
        # dual: clauses that are tautologies the pairwise rules cannot see
        nx, ny = x.replace("==", "!="), y.replace("==", "!=")
        cd = c.replace("not in", "§").replace(" in ", " not in ").replace("§", "in")
        clauses = [f"{nx} or {cd}", f"{ny} or {cd}"]
        for order in ([*clauses, third], [third, *clauses]):
            yield ["m", " and ".join(f"({a})" for a in order)]
        yield ["and", ["and", ["or", ["m", nx], ["m", cd]], ["or", ["m", ny], ["m", cd]]], ["m", third]]


def factored_extra_trees():
    """`(P and e1) | (P and e2)` factors into `P and (e1 or e2)`: a conjunction with a union child made only of atoms
    of the variable that is then eliminated (without_extras / exclude / only) - a shape only `|` produces."""
    Ps = ['python_version >= "3.8"', 'os_name == "a"', 'os_name == "a" or os_name == "b"', 'python_version >= "3.8" and os_name == "a"']
    Es = [("extra", ['extra == "cli"', 'extra == "docs"', 'extra == "test"']),
          ("sys_platform", ['sys_platform == "linux"', 'sys_platform == "win32"', 'sys_platform == "darwin"'])]
    for P, (ev, es), k in itertools.product(Ps, Es, (2, 3)):
        alts = [["and", ["m", P], ["m", e]] for e in es[:k]]
        u = alts[0]
        for a in alts[1:]:
            u = ["or", u, a]
        names = [n for n in ("python_version", "os_name") if n in P]
        for base in (u, ["or", u, ["m", 'implementation_name == "pypy"']], ["and", u, ["m", 'implementation_name == "cpython"']]):
            yield ["exclude", base, ev]
            yield ["only", base, names]
            yield ["only", base, names + ["implementation_name"]]
            if ev == "extra":
                yield ["noextras", base]
            yield ["str", ["exclude", base, ev]]


def run_trees(ctx, run_tree, *, n_random, max_atoms, unary_p=0.3, small_frac=1.0, cfg=None, seconds=None, strata=True):
    """run_tree(tree) evaluates one tree (the check supplies monitors/oracles)."""
    rnd = ctx.rnd
    ctx.stratum = "main"
    MM.clear_caches()
    # small-scope strata, sharded (quick: rotating sample selected by seed)
    step = ctx.nshards * (1 if ctx.tier == "thorough" else 8)
    off = ctx.shard if ctx.tier == "thorough" else ctx.shard + (ctx.seed % 8) * ctx.nshards
    cnt = 0
    t_small = ctx.elapsed()
    for i, t in enumerate(small_scope_trees(ctx) if strata else ()):
        if i % step != off % step:
            continue
        if ctx.elapsed() - t_small > (40 if ctx.tier == "quick" else 300):
            ctx.extra["small_scope_stopped_by_time_budget_after"] = cnt
            break
        if small_frac < 1.0 and rnd.random() > small_frac:
            continue
        run_tree(t)
        cnt += 1
    ctx.extra["small_scope_cases"] = cnt
    ctx.extra["small_scope_seconds"] = round(ctx.elapsed() - t_small, 1)
    if strata:
        size_strata(ctx, run_tree)
    ctx.stratum = "main"
    cfg = cfg or MW.Cfg()
    closure = []
    t0 = ctx.elapsed()
    limit = seconds or (15 if ctx.tier == "quick" else 150)
    for i in range(n_random):
        if ctx.elapsed() - t0 > limit:
            ctx.extra["random_stopped_by_time_budget_after"] = i
            break
        tree = gen_tree(rnd, cfg, max_atoms, closure, unary_p)
        run_tree(tree)
        if rnd.random() < 0.3:
            # a compound combined with one of its OWN direct children (absorption shapes: X | p, p & X ...)
            kids = []

            def own_children():
                with MM.oracle():
                    try:
                        v = MW.build(tree)
                        if hasattr(v, "markers") and len(v.markers) >= 2:
                            return [str(c) for c in v.markers[:3] if str(c) and "<empty>" not in str(c)]
                    except Exception:  # noqa: BLE001
                        pass
                return []

            # (a tree whose evaluation just hit the watchdog would otherwise be rebuilt here without one)
            ok, got = ctx.guarded(5.0, own_children)
            kids = got if ok and got else []
            for ktext in kids:
                for op in ("or", "and"):
                    run_tree([op, tree, ["m", ktext]])
                    run_tree([op, ["m", ktext], tree])
        if rnd.random() < 0.35:
            # operands that are themselves EmptyMarker / AnyMarker, on either side of either operator
            for special in (["empty"], ["any"]):
                for op in ("and", "or"):
                    run_tree([op, tree, special])
                    run_tree([op, special, tree])
        if rnd.random() < 0.25 and MW.tree_atoms(tree) <= max_atoms:
            # the expression against its own order twin, bare and behind self-combined ballast
            tw = order_twin(rnd, tree, rnd.choice([1.0, 0.5]))
            op = rnd.choice(["or", "and"])
            run_tree([op, tree, tw])
            outer = "and" if op == "or" else "or"
            if rnd.random() < 0.3 and MW.tree_atoms(tree) <= 4:
                run_tree([op, [op, tree, ballast(rnd, outer, 2, "s")], tw])
        if rnd.random() < 0.25 and MW.tree_atoms(tree) <= max_atoms - 2:
            closure.append(tree)
            if len(closure) > 100:
                closure.pop(rnd.randrange(len(closure)))
    ctx.current_case = None
