"""C08 - wheel python/ABI compatibility = some Python in requires_python can load it.

Deciding monitors: post-condition on EnvSpec._evaluate_python (every (python tag, abi tag) pair)
and on EnvSpec.compatibility (maximum over pairs, first three score components) against an
independent rule oracle written from the statement; "some admitted interpreter in the window" is
decided exactly with the interval model.
"""
from __future__ import annotations

import itertools

from ..models import intervals as iv
from ..models import wheeltags as wt
from ..monitor import bump, install, violation

PROP = "C08"
ANCHORS = ['dep_logic.tags.tags:EnvSpec._evaluate_python', 'dep_logic.tags.tags:EnvSpec.compatibility']
RULE = ("requires_python pool built systematically: for every boundary (X,Y), X in {2,3}, Y in {0,1,9,10,11,20}: "
        "==X.Y.*, <X.Y, >=X.Y, <X.(Y+1), <=X.Y, >X.Y, !=X.Y.*, bounds inside the series (>=X.Y.3,<X.Y.5), ~=X.Y, plus "
        "unions/holes/empty/universal and seeded random shapes; x 4 implementation settings (unspecified, cpython, "
        "cpython free-threaded, pypy) x python tags {cp,pp,py}{2,3}{0..20} and py2/py3 x abi tags {none, abi3, "
        "cpXY with flags '',m,mu,d,dm,t for sampled XY, pypyXY_ppNN}; plus multi-tag wheels (compressed sets). "
        "One evaluation = one (spec, python tag, abi tag) decision. Non-trivial/distinct: decisions that flip when "
        "the python tag's minor is moved by one (the decision is sensitive to the version rule).")
ASSUMPTIONS = [
    "an 'interpreter admitted by requires_python' is any version inside the window (interval semantics, as in C01)",
    "abi3 is only loadable by non-free-threaded CPython (PEP 703); cp313td / pyston ABIs / cpX tags are not generated",
    "the fourth score component (platform) belongs to C09",
]
MIN_EVENTS = {"EnvSpec._evaluate_python": 20000, "EnvSpec.compatibility": 20000}
MIN_SHAPES = {"compatible:abi3": 100, "compatible:none": 100, "compatible:concrete": 100, "incompatible": 1000,
              "multi-tag": 50}
SHARDS = {"quick": 4, "thorough": 16}

IMPLS = [None, ("cpython", False), ("cpython", True), ("pypy", False)]


def rp_pool(rnd, n_random):
    out = ["", "<empty>", ">=3", "<4", ">=4", "<2", ">=2.7,!=3.0.*,!=3.1.*", "<3.6||>=3.9", "==2.7.*||>=3.5",
           "==3.8.10", ">3.9.5,<3.10", ">=3.6,<3.6.1", "==3.1.*||==3.12.*", "~=3.8.2", ">=3.7,!=3.9.*",
           ">=3.10.2,<3.10.5", "==3.*", "==2.*", "<3.0||>=3.3", ">=3.13", ">=3.8,<3.11",
           # pinned interpreters (min == max) in every spelling, and versions with an epoch: an epoch-1 line admits no
           # 2.x / 3.x interpreter at all, an explicit epoch 0 changes nothing
           "==3.9.2", ">=3.9.2,<=3.9.2", "==3.9", "==3.9.0", "==3.10.0.0", "==1!3.9.2", ">=1!3.9,<=1!3.9", "==1!3.9.*",
           ">=1!3.8", "<1!3.0", "==0!3.9.2", ">=0!3.8,<0!3.11", "==3.9.2.post1", ">=3.9.2,<1!0"]
    for X in (2, 3):
        for Y in (0, 1, 9, 10, 11, 20):
            out += [f"=={X}.{Y}.*", f"<{X}.{Y}", f">={X}.{Y}", f"<{X}.{Y + 1}", f"<={X}.{Y}", f">{X}.{Y}",
                    f"!={X}.{Y}.*", f">={X}.{Y}.3,<{X}.{Y}.5", f"~={X}.{Y}", f"=={X}.{Y}.4"]
    for _ in range(n_random):
        parts = []
        for _ in range(rnd.choice([1, 1, 2, 3])):
            X, Y = rnd.choice([2, 3, 3, 3]), rnd.randint(0, 21)
            k = rnd.random()
            if k < 0.5:
                parts.append(f"{rnd.choice(['<', '<=', '>', '>='])}{X}.{Y}" + (f".{rnd.randint(0, 9)}" if rnd.random() < 0.3 else ""))
            elif k < 0.7:
                parts.append(f"!={X}.{Y}.*")
            elif k < 0.85:
                parts.append(f"=={X}.{Y}.*")
            else:
                parts.append(f"!={X}.{Y}.{rnd.randint(0, 5)}")
        s = ",".join(parts)
        if rnd.random() < 0.25:
            s += "||" + f"=={rnd.choice([2, 3])}.{rnd.randint(0, 20)}.*"
        out.append(s)
    return out


PYTAGS = [f"{i}{X}{Y}" for i in ("cp", "pp", "py") for X in (2, 3) for Y in range(0, 21)] + ["py2", "py3"]


def abi_tags(rnd, full):
    out = ["none", "abi3"]
    ys = range(0, 21) if full else sorted(set([0, 1, 2, 10, 12, 13] + rnd.sample(range(0, 21), 5)))
    for X in (2, 3):
        for Y in ys:
            for fl in ("", "m", "mu", "d", "dm", "t"):
                out.append(f"cp{X}{Y}{fl}")
    for Y in (8, 9, 10, 11):
        out.append(f"pypy3{Y}_pp73")
    out.append("pypy27_pp73")
    return out


def setup(ctx):
    import dep_logic.tags.tags as T

    def ctx_of(spec):
        impl = spec.implementation
        return (None if impl is None else impl.short), (None if impl is None else impl.gil_disabled)

    def post_eval(args, kwargs, r):
        spec, pt, abi = args[0], args[1], args[2]
        rp = spec.requires_python
        if not iv.readable(rp):
            return
        short, gil = ctx_of(spec)
        exp = wt.oracle(rp, short, gil, pt, abi)
        if exp == "unspecified":
            ctx.shape("outside-statement")
            return
        ctx.evaluations += 1
        if exp is None:
            ctx.shape("incompatible")
        else:
            ctx.shape("compatible:" + {0: "none", 1: "abi3", 2: "concrete"}[exp[2]])
        # sensitivity: does the oracle flip when the minor moves by one?
        m = wt._PT.match(pt)
        if m and m.group(3):
            for dy in (-1, 1):
                y2 = int(m.group(3)) + dy
                if y2 >= 0:
                    pt2 = f"{m.group(1)}{m.group(2)}{y2}"
                    abi2 = abi.replace(pt[2:], f"{m.group(2)}{y2}", 1) if abi not in ("none", "abi3") else abi
                    e2 = wt.oracle(rp, short, gil, pt2, abi2)
                    if (e2 is None) != (exp is None):
                        ctx.nontrivial(str(rp), short, gil, pt, abi)
                        break
        if r != exp:
            kind = "compatibility" if (r is None) != (exp is None) else "score"
            violation(PROP, "EnvSpec._evaluate_python", f"{kind} differs from the rule oracle",
                      {"requires_python": str(rp), "implementation": short, "gil_disabled": gil, "python_tag": pt,
                       "abi_tag": abi, "got": r, "expected": exp,
                       "group": f"{kind}/{pt[:2]}/{'abi3' if abi == 'abi3' else 'none' if abi == 'none' else 'concrete'}/{'got' if r else 'missing'}"})

    def pre_compat(args, kwargs):
        return tuple(tuple(x) for x in args[1:4])

    def post_compat(args, kwargs, r, before=None):
        spec = args[0]
        if before is not None:
            # the verdict is about the tag sets the caller passed in: the oracle reads the snapshot taken before the
            # call, and the caller's own lists must come back untouched
            if tuple(tuple(x) for x in args[1:4]) != before:
                violation(PROP, "EnvSpec.compatibility", "the call modified the tag lists passed in by the caller",
                          {"before": [list(x) for x in before], "after": [list(x) for x in args[1:4]], "group": "arg-mutation"})
            pts, abis, plats = (list(x) for x in before)
        else:
            pts, abis, plats = args[1], args[2], args[3]
        rp = spec.requires_python
        if not iv.readable(rp):
            return
        short, gil = ctx_of(spec)
        exps = [wt.oracle(rp, short, gil, p, a) for p in pts for a in abis]
        if any(e == "unspecified" for e in exps):
            return
        best = max([e for e in exps if e is not None], default=None)
        if len(pts) * len(abis) > 1:
            ctx.shape("multi-tag")
        plat_ok = spec.platform is None or any(p == "any" or p in spec.platform.compatible_tags for p in plats)
        if not plat_ok:
            return
        if ctx.rnd.random() < 0.1:
            again = spec.compatibility(pts, abis, plats)  # same call again on the same object: no hidden state
            if again != r:
                violation(PROP, "EnvSpec.compatibility", "the same call repeated on the same spec gives a different score",
                          {"requires_python": str(rp), "implementation": short, "python_tags": pts, "abi_tags": abis,
                           "first": r, "second": again, "group": "repeat"})
        got3 = None if r is None else tuple(r[:3])
        if got3 != best:
            impl = spec.implementation
            violation(PROP, "EnvSpec.compatibility", "python/abi part of the score differs from the best pair",
                      {"requires_python": str(rp), "implementation": short, "gil_disabled": gil, "python_tags": pts,
                       "abi_tags": abis, "platform_tags": plats, "platform": None if spec.platform is None else str(spec.platform),
                       "got": r, "expected_first3": best, "group": "compat" + ("" if spec.platform is None else "/with-platform")},
                      case={"kind": "call", "requires_python": str(rp), "impl": None if impl is None else [impl.name, impl.gil_disabled],
                            "platform": None if spec.platform is None else str(spec.platform), "py": pts, "abi": abis, "plat": plats})

    install(T.EnvSpec, "_evaluate_python", post_eval)
    install(T.EnvSpec, "compatibility", post_compat, pre=pre_compat)


PLATFORMS = [None, "linux", "macos_14_0_arm64", "windows_amd64", "musllinux_1_2_x86_64", "manylinux_2_28_aarch64"]


def _mk(rp, impl, platform=None):
    from dep_logic.tags import EnvSpec

    return EnvSpec.from_spec(rp, platform, impl[0] if impl else None, impl[1] if impl else False)


def _plat_tags(rnd, spec):
    """Platform tag sets of a wheel for this spec: `any`, one accepted tag, several (in either order), with a
    foreign one mixed in - the python/abi verdict must not depend on whether / which platform the spec states."""
    if spec.platform is None:
        return ["any"]
    tags = spec.platform.compatible_tags
    k = rnd.random()
    if k < 0.3 or not tags:
        return ["any"]
    if k < 0.55:
        return [rnd.choice(tags)]
    out = rnd.sample(tags, min(len(tags), rnd.randint(2, 3)))
    if rnd.random() < 0.4:
        out.insert(rnd.randrange(len(out) + 1), "foreign_platform_tag")
    if rnd.random() < 0.3:
        out.append("any")
    return out


def run(ctx):
    if ctx.shard == 0:  # the repository's own pinned examples as one more workload (outcomes ignored)
        from ..repotests import run_repo_tests

        run_repo_tests(ctx, ("tags",))
    rnd = ctx.rnd
    full = ctx.tier == "thorough"
    pool = rp_pool(rnd, 60 if full else 12)
    abis = abi_tags(rnd, full)
    combos = [(rp, impl) for rp in pool for impl in IMPLS]
    for idx, (rp, impl) in enumerate(combos):
        if idx % ctx.nshards != ctx.shard:
            continue
        try:
            spec = _mk(rp, impl, PLATFORMS[idx % len(PLATFORMS)] if idx % 2 else None)
        except Exception as e:  # noqa: BLE001
            from dep_logic.specifiers import InvalidSpecifier, parse_version_specifier

            if isinstance(e, InvalidSpecifier) and parse_version_specifier(rp).is_empty():
                ctx.shape("empty requires_python rejected by from_spec (outside the quantifier)")
                continue
            violation(PROP, "EnvSpec.from_spec", f"raised {type(e).__name__}", {"requires_python": rp, "error": str(e)[:100]})
            continue
        ctx.cases += 1
        ctx.current_case = {"kind": "grid", "requires_python": rp, "impl": impl}
        pts = PYTAGS if full else [p for p in PYTAGS if rnd.random() < 0.33]
        for pt in pts:
            for abi in abis:
                if not full and abi not in ("none", "abi3") and rnd.random() < 0.5 and abi[2:4] != pt[2:4]:
                    continue
                try:
                    spec.compatibility([pt], [abi], _plat_tags(rnd, spec))
                except Exception as e:  # noqa: BLE001
                    violation(PROP, "EnvSpec.compatibility", f"raised {type(e).__name__}",
                              {"requires_python": rp, "impl": impl, "python_tag": pt, "abi_tag": abi, "error": str(e)[:100],
                               "group": type(e).__name__}, case={"kind": "one", "requires_python": rp, "impl": impl, "py": [pt], "abi": [abi]})
        # compressed tag sets, structured: tags of the SAME interpreter version but different kind, in every
        # order, with ABI sets that give different ABI classes (the best pair must win whatever the order)
        for Y in ((8, 9, 10, 12) if (full and idx % 4 == ctx.shard % 4) else (rnd.choice([8, 9, 10, 12]),)):
            kinds = [f"py3{Y}", f"cp3{Y}", f"pp3{Y}", "py3", f"cp3{Y + 1}", f"py3{Y - 1}"]
            abisets = [["none", "abi3"], ["none", f"cp3{Y}"], ["abi3", f"cp3{Y}"], ["none"], [f"cp3{Y}", "none", "abi3"],
                       [f"pypy3{Y}_pp73", "none"], [f"cp3{Y}t", "abi3", "none"]]
            for k in (2, 3):
                for ptags in itertools.permutations(kinds, k):
                    if rnd.random() < ((0.85 if k == 2 else 0.97) if not full else (0.3 if k == 2 else 0.8)):
                        continue
                    for a2 in abisets:
                        try:
                            spec.compatibility(list(ptags), list(a2), _plat_tags(rnd, spec))
                            spec.compatibility(list(ptags), list(reversed(a2)), _plat_tags(rnd, spec))
                        except Exception as e:  # noqa: BLE001
                            violation(PROP, "EnvSpec.compatibility", f"raised {type(e).__name__}",
                                      {"requires_python": rp, "impl": impl, "python_tags": ptags, "abi_tags": a2, "error": str(e)[:100]})
        # compressed tag sets, random
        for _ in range(30 if full else 8):
            p2 = rnd.sample(PYTAGS, rnd.randint(1, 3))
            a2 = rnd.sample(abis, rnd.randint(1, 3))
            if rnd.random() < 0.5:
                a2 = list({*a2, rnd.choice(["none", "abi3"])})
            try:
                spec.compatibility(p2, a2, _plat_tags(rnd, spec))
            except Exception as e:  # noqa: BLE001
                violation(PROP, "EnvSpec.compatibility", f"raised {type(e).__name__}",
                          {"requires_python": rp, "impl": impl, "python_tags": p2, "abi_tags": a2, "error": str(e)[:100]})
        # specs *derived* from this one with dataclasses.replace (state must not travel with the copy): the same
        # tag pairs are asked again on the derived object, whose own answer the monitors check
        import dataclasses

        from dep_logic.specifiers import parse_version_specifier as _P
        from dep_logic.tags import Implementation as _Impl

        for _ in range(3 if full else 1):
            other_rp = rnd.choice(pool)
            try:
                new_rp = _P(other_rp)
                if new_rp.is_empty():
                    continue
                derived = [dataclasses.replace(spec, requires_python=new_rp)]
                other_impl = rnd.choice(IMPLS)
                derived.append(dataclasses.replace(spec, implementation=None if other_impl is None else _Impl(*other_impl)))
            except Exception:  # noqa: BLE001
                continue
            ctx.shape("derived-spec", len(derived))
            for dspec in derived:
                for pt in rnd.sample(pts, min(len(pts), 12)):
                    for abi in ("none", "abi3", f"cp{pt[2:]}", f"cp{pt[2:]}t"):
                        spec.compatibility([pt], [abi], ["any"])
                        dspec.compatibility([pt], [abi], ["any"])
        if len(ctx.samples) < 4:
            ctx.sample({"requires_python": rp, "implementation": impl, "example": ["cp310", "abi3", spec.compatibility(["cp310"], ["abi3"], ["any"])]})
    ctx.current_case = None


def replay(ctx, case):
    if isinstance(case, dict) and case.get("kind") == "repo-test":
        from ..repotests import run_repo_tests

        run_repo_tests(ctx, nodeid=case["nodeid"])
        return
    spec = _mk(case["requires_python"], tuple(case["impl"]) if case.get("impl") else None, case.get("platform"))
    if case["kind"] == "call":
        spec.compatibility(case["py"], case["abi"], case["plat"])
        return
    if case["kind"] == "one":
        spec.compatibility(case["py"], case["abi"], ["any"])
        return
    abis = abi_tags(ctx.rnd, True)
    for pt in PYTAGS:
        for abi in abis:
            try:
                spec.compatibility([pt], [abi], ["any"])
            except Exception:  # noqa: BLE001
                pass
