"""C17 - the specifier parser accepts exactly PEP 440 specifier sets (plus || and <empty>).

Deciding monitor: differential acceptance oracle at the return/raise of parse_version_specifier
and from_specifierset: packaging.SpecifierSet decides validity of every ||-part; a valid string
must return a specifier, an invalid one must raise dep-logic's InvalidSpecifier and nothing else.
"""
from __future__ import annotations

import random

from packaging.specifiers import InvalidSpecifier as PkgInvalid
from packaging.specifiers import SpecifierSet
from packaging.version import Version

from ..monitor import bump, violation
from ..workloads import specs as W

PROP = "C17"
ANCHORS = ['dep_logic.specifiers:parse_version_specifier', 'dep_logic.specifiers:from_specifierset', 'dep_logic.specifiers:_from_pkg_specifier', 'dep_logic.specifiers:_prefix_bounds']
RULE = ("Grammar generator over the public (local-free) version syntax: epoch, 1-4 release segments, leading "
        "zeros, v prefix, every alternate pre/post/dev spelling and separator, case, whitespace; every operator "
        "(==, !=, <, <=, >, >=, ~=, ===-free), wildcards, comma sets of 1-3 clauses, || joins, <empty>; 30% near-miss "
        "mutations (dropped/duplicated characters, ~= with one segment, wildcard with ordering operator or suffix, "
        "doubled commas, stray characters). Non-trivial/distinct: distinct strings; shape counters per "
        "(operator, version shape).")
ASSUMPTIONS = [
    "validity reference = packaging.specifiers.SpecifierSet of the installed packaging release, applied to each ||-part",
    "+local operands and === clauses are outside the claim and are not generated (=== unions may raise ValueError, C04)",
]
MIN_EVENTS = {"accept-valid": 300, "reject-invalid": 50, "from_specifierset": 300}
MIN_SHAPES = {"op:~=": 20, "op:==*": 10, "op:!=*": 10, "shape:epoch": 20, "shape:pre": 20, "shape:post": 20,
              "shape:dev": 20, "union": 20, "shape:nonnormalised": 20}
SHARDS = {"quick": 2, "thorough": 16}
# blanks that str.strip() / a unicode-mode \s accept besides the ASCII ones (packaging is the reference for validity)
UNICODE_BLANKS = ["\t", "\n", "\x0b", "\x0c", "\x1c", "\x85", "\xa0", "\u1680", "\u2003", "\u2028", "\u202f", "\u3000"]


def setup(ctx):
    pass


def _ver(rnd, wild=False):
    s = ""
    nn = False
    if rnd.random() < 0.12:
        s += rnd.choice(["v", "V"]); nn = True
    ep = rnd.random() < 0.2
    if ep:
        s += f"{rnd.choice([0, 1, 2, 10])}!"
    s += ".".join(str(rnd.choice([0, 1, 2, 9, 10, 2024, "01", "00"])) for _ in range(rnd.choice([1, 2, 2, 3, 3, 4, 5])))
    shapes = ["epoch"] if ep else []
    if wild:
        return s + ".*", shapes, nn
    if rnd.random() < 0.3:
        spelled = rnd.choice(["a", "b", "c", "rc", "alpha", "beta", "pre", "preview", "A", "RC", "Beta"])
        s += rnd.choice(["", ".", "-", "_"]) + spelled + rnd.choice(["", ".", "-", "_"]) + rnd.choice(["", "0", "1", "12"])
        shapes.append("pre"); nn = nn or spelled not in ("a", "b", "rc")
    if rnd.random() < 0.25:
        sp = rnd.choice([".post1", "-1", "post2", ".rev3", "-r4", "_post5", ".POST6", ".post", ".post.7"])
        s += sp
        shapes.append("post"); nn = nn or not sp.startswith(".post") or sp in (".post", ".post.7")
    if rnd.random() < 0.2:
        sp = rnd.choice([".dev1", "dev2", "-dev3", "_dev", ".DEV4", ".dev0"])
        s += sp
        shapes.append("dev"); nn = nn or sp not in (".dev1", ".dev0")
    return s, shapes, nn


def _clause(ctx, rnd):
    op = rnd.choice(["==", "!=", "<", "<=", ">", ">=", "~=", "==", "!="])
    wild = op in ("==", "!=") and rnd.random() < 0.3
    v, shapes, nn = _ver(rnd, wild)
    sp = rnd.choice(['', ' ', '  ']) if rnd.random() < 0.93 else rnd.choice(UNICODE_BLANKS)
    return f"{op}{sp}{v}", op + ("*" if wild else ""), shapes, nn


def _mutate(rnd, s):
    k = rnd.random()
    if k < 0.15:
        return s.replace("=", "", 1)
    if k < 0.3:
        return s + rnd.choice([",", ",,", "x", "!", "*", ".*", " ~", "+", "+local"])
    if k < 0.4:
        return s.replace(".", "..", 1)
    if k < 0.7:
        return rnd.choice(["~=1", "=1.0", "===", "<>1.0", "~=1.*", ">=1.*", "1.0", "==1.0a1.*", "==*", "!=", "~= ",
                           "~=1!2", "==1.0.dev1.*", "<1.*", "== 1. 0", "=>1.0", "==1.0.post1.*", "~=1a1", ">=1.0,",
                           ",>=1.0", ">=1.0;<2", "==1.0 ||", "|| ==1.0", "||", ">=1.0 || <empty>", "<empty>,>=1",
                           "~=1.post1", "!= 1.*.0", ">1!", ">=!1", "==1..0", "~=v1", "==1.0-", "==1.0.post"])
    if k < 0.85 and len(s) > 2:
        i = rnd.randrange(len(s))
        return s[:i] + s[i + 1:]
    return s[::-1]


class _Str(str):
    """A plain str subclass (path-like wrappers, markupsafe-style strings ...)."""


def _call_forms(ctx, text, positional_outcome, positional_result):
    """The same text through the other legal ways of calling the parser: by keyword (the documented parameter
    name), as an instance of a str subclass, as a (str, Enum) member whose value is the text.  Each must behave
    exactly like the plain positional call."""
    import enum
    import inspect

    from dep_logic.specifiers import InvalidSpecifier, parse_version_specifier

    try:
        pname = next(iter(inspect.signature(parse_version_specifier).parameters))
    except Exception:  # noqa: BLE001
        pname = "spec"
    forms = [("keyword", lambda: parse_version_specifier(**{pname: text})), ("str-subclass", lambda: parse_version_specifier(_Str(text)))]
    try:
        member = enum.Enum("Choice", {"X": text}, type=str).X
        forms.append(("str-enum-member", lambda: parse_version_specifier(member)))
    except Exception:  # noqa: BLE001
        pass
    for how, call in forms:
        bump("call-form")
        try:
            r2 = call()
            out = "ok"
        except InvalidSpecifier:
            out, r2 = "invalid", None
        except Exception as e:  # noqa: BLE001
            out, r2 = f"raised {type(e).__name__}: {str(e)[:100]}", None
        same = out == positional_outcome and (r2 is None or str(r2) == str(positional_result))
        if not same:
            violation(PROP, "parse_version_specifier", f"a {how} call behaves differently from the positional call with the same text",
                      {"text": text[:200], "positional": positional_outcome, how: out,
                       "result": None if r2 is None else str(r2)[:120], "group": "call-form/" + how})


def _one(ctx, text):
    from dep_logic.specifiers import BaseSpecifier, InvalidSpecifier, from_specifierset, parse_version_specifier

    ctx.evaluations += 1
    shown = text if len(text) <= 300 else text[:200] + f" ...[{len(text)} chars, {text.count('||') + 1} alternatives]"
    parts = text.split("||") if "||" in text else [text]
    pk = []
    valid = True
    if text != "<empty>":
        for p in parts:
            if p == "<empty>" and len(parts) > 1:
                pk.append(None)
                continue
            try:
                pk.append(SpecifierSet(p))
            except PkgInvalid:
                valid = False
                break
    try:
        r = parse_version_specifier(text)
        got = "ok"
        if hasattr(ctx, "c17_seen") and len(ctx.c17_seen) < 600 and len(text) < 300:
            ctx.c17_seen.append((text, ("ok", str(r))))
    except InvalidSpecifier:
        got = "invalid"
        r = None
        if hasattr(ctx, "c17_seen") and len(ctx.c17_seen) < 600 and len(text) < 300:
            ctx.c17_seen.append((text, ("InvalidSpecifier", "")))
    except Exception as e:  # noqa: BLE001
        got = f"raised {type(e).__name__}: {str(e)[:120]}"
        r = None
    if (ctx.evaluations % 6 == 0 or getattr(ctx, "force_forms", False)) and len(text) < 400:
        _call_forms(ctx, text, got, r)
    if valid:
        bump("accept-valid")
        if got != "ok":
            violation(PROP, "parse_version_specifier", "rejects a specifier set that packaging accepts",
                      {"text": shown, "outcome": got, "group": got.split(":")[0]})
        elif not isinstance(r, BaseSpecifier):
            violation(PROP, "parse_version_specifier", "returned a non-specifier", {"text": shown, "result": repr(r)[:200]})
        for p in pk:
            if p is None:
                continue
            bump("from_specifierset")
            try:
                fr = from_specifierset(p)
                if not isinstance(fr, BaseSpecifier):
                    violation(PROP, "from_specifierset", "returned a non-specifier", {"text": str(p), "result": repr(fr)})
            except Exception as e:  # noqa: BLE001
                violation(PROP, "from_specifierset", f"raised {type(e).__name__} on a SpecifierSet object",
                          {"text": str(p), "error": str(e)[:160], "group": type(e).__name__})
    else:
        bump("reject-invalid")
        if got != "invalid":
            violation(PROP, "parse_version_specifier",
                      "does not raise InvalidSpecifier for a string packaging rejects",
                      {"text": shown, "outcome": got, "group": got.split(":")[0]})
    return valid


def run(ctx):
    rnd = ctx.rnd
    ctx.c17_seen = []
    n = 6000 if ctx.tier == "quick" else 80000
    fixed = ["", "<empty>", " ", ">=1.0 , <2", "==1!0.*", "~=1!0.1", "~=1.0c1", "~=1.0.rev1", "~=v1.1", "~=1.0-rc.1",
             "!=1!2.3.*", "~=2!1.2.3", "==01.02.*", "~=1.0.0.0.0", "==1.0alpha1", "<=1.0-1", ">=1.0||<0.5", "<empty>||>=1",
             "~= 1.2.post3.dev4", "~=1.2a3", "== 0!1.*", "~=1.2_beta.3", ">=\xa01.0", ">=1.0\u2003,\u2003<2", "\u3000==1.*",
             "~=1.0.po\u017ft1", ">=1.0\u2028", "==1.0.\u0661", ">=\uff11.0",
             # clauses that are empty or blank: at the ends, doubled, and in the middle of the set
             ">=1.0, ,<2.0", ", ,", ">=1 ,\t, <2", "<1||>=2, ,<3", ",>=1", ">=1,", ">=1,,<2", " , >=1 , ", ">=1,\u00a0,<2"]
    for t in fixed:
        ctx.current_case = {"kind": "text", "text": t}
        _one(ctx, t)
        ctx.cases += 1
    # stress: very long || chains (valid, and with one invalid alternative somewhere inside)
    if ctx.shard == 0:
        for length in ((60, 400, 1200, 2500) if ctx.tier == "quick" else (60, 400, 1200, 2500, 6000)):
            alts = [f"=={k}.{k % 7}" if k % 3 else f">={k},<{k}.5" for k in range(length)]
            for bad_at in (None, length // 2, length - 1, 0):
                parts = list(alts)
                if bad_at is not None:
                    parts[bad_at] = "=>1.0"
                text = "||".join(parts)
                ctx.cases += 1
                ctx.current_case = {"kind": "long-chain", "length": length, "bad_at": bad_at}
                ok, _ = ctx.guarded(120.0, _one, ctx, text)
                ctx.shape("long-chain")
    for i in range(n):
        k = rnd.choice([1, 1, 2, 3])
        clauses = [_clause(ctx, rnd) for _ in range(k)]
        sep = rnd.choice([",", ", ", " , "]) if rnd.random() < 0.95 else rnd.choice(UNICODE_BLANKS) + "," + rnd.choice(UNICODE_BLANKS)
        text = sep.join(c[0] for c in clauses)
        if rnd.random() < 0.05:
            # an empty / blank clause somewhere in the set (packaging ignores clauses that are empty after stripping)
            parts = [c[0] for c in clauses]
            parts.insert(rnd.randrange(len(parts) + 1), rnd.choice(["", " ", "\t", "  "]))
            text = rnd.choice([",", ", ", " ,"]).join(parts)
            ctx.shape("shape:blank-clause")
        if rnd.random() < 0.04:
            text = rnd.choice(UNICODE_BLANKS) + text + rnd.choice(UNICODE_BLANKS)
            ctx.shape("shape:unicode-blank")
        mutated = rnd.random() < 0.3
        if mutated:
            text = _mutate(rnd, text)
        joined = rnd.random() < 0.12
        if joined:
            k2 = rnd.choice([1, 2])
            text = "||".join([text] + [_clause(ctx, rnd)[0] for _ in range(k2)])
        if ("+" in text and not mutated) or "===" in text:
            continue  # +local operands and === are outside the claim
        ctx.cases += 1
        ctx.current_case = {"kind": "text", "text": text}
        ok, valid = ctx.guarded(5.0, _one, ctx, text)
        if ok:
            ctx.nontrivial(text)
            if valid and not mutated:
                for c in clauses:
                    ctx.shape("op:" + c[1])
                    for sh in c[2]:
                        ctx.shape("shape:" + sh)
                    if c[3]:
                        ctx.shape("shape:nonnormalised")
                if joined:
                    ctx.shape("union")
            if len(ctx.samples) < 8 and i % 500 == 7:
                ctx.sample({"text": text, "valid_for_packaging": valid})
    # strings parsed earlier are parsed again at the end, in reverse order: same acceptance, equal result
    from dep_logic.specifiers import parse_version_specifier

    for text, first in reversed(ctx.c17_seen[:600]):
        bump("reparse")
        try:
            again = parse_version_specifier(text)
            outcome = ("ok", str(again))
        except Exception as e:  # noqa: BLE001
            outcome = (type(e).__name__, "")
        if outcome != first:
            violation(PROP, "parse_version_specifier", "parsing the same string again gives a different outcome",
                      {"text": text[:200], "first": list(first), "second": list(outcome), "group": "repeat"},
                      case={"kind": "text", "text": text})
    ctx.current_case = None


def replay(ctx, case):
    if case.get("kind") == "long-chain":
        alts = [f"=={k}.{k % 7}" if k % 3 else f">={k},<{k}.5" for k in range(case["length"])]
        if case["bad_at"] is not None:
            alts[case["bad_at"]] = "=>1.0"
        _one(ctx, "||".join(alts))
        return
    ctx.force_forms = True
    _one(ctx, case["text"])
