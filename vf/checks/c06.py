"""C06 - specifier text round-trip: str() never fails and parses back equal.

Deciding monitor: at every node of every evaluated tree (parser results and operator results) the
value is rendered, re-parsed with the library's own parser and compared (== and exact
critical-point vectors).  A dedicated stratum enumerates the neighbourhood of the shortening
heuristics (~=, ==X.*, !=V, !=X.*).
"""
from __future__ import annotations

import itertools

from .. import specmon
from ..models import intervals as iv
from ..monitor import oracle
from ..workloads import specs as W
from ._spec_common import eval_tree, run_trees

PROP = "C06"
ANCHORS = ['dep_logic.specifiers.range:RangeSpecifier._simplified_form', 'dep_logic.specifiers.range:RangeSpecifier.__str__', 'dep_logic.specifiers.union:UnionSpecifier._simplified_form', 'dep_logic.specifiers.union:UnionSpecifier.__str__', 'dep_logic.specifiers:_from_pkg_specifier', 'dep_logic.specifiers:parse_version_specifier']
RULE = ("(1) expression trees as in C01: every node value is rendered and re-parsed; (2) systematic stratum around "
        "the rendering shortcuts: [lo, hi) with lo of release length 1-4 and hi = lo bumped at each position with "
        "every zero padding, near misses (difference 2, non-zero tail, inclusive max, exclusive min), pre/post/dev "
        "suffixes and epochs on either bound, and the two-range complements (-inf,V)|(V,inf), "
        "(-inf,X.Y.0)|[X.(Y+1).0,inf) with the same variations; ranges are built with & / | so that the text is "
        "re-rendered, not inherited from parsing. Non-trivial/distinct: distinct re-rendered texts."
        " (3) unions of 100-3000 ranges (pins, exclusion chains, shuffled ranges) built through operators and parser.")
ASSUMPTIONS = [
    "equality of the re-parsed specifier is decided both by the library's == and by exact critical-point vectors",
    "only parser-reachable objects are rendered",
]
MIN_EVENTS = {"roundtrip": 500}
MIN_SHAPES = {"render:compatible-release": 5, "render:not-equal": 3, "render:not-equal-wildcard": 3,
              "render:union-join": 20, "render:pair": 50, "render:equal": 3, "render:empty": 1, "render:universal": 1,
              "render:single-bound": 20}
SHARDS = {"quick": 4, "thorough": 16}


def setup(ctx):
    pass  # the round-trip oracle runs at tree nodes (boundary of the public API); no inner hooks needed


def _case(ctx):
    def on_node(t, v, kids):
        specmon.roundtrip_check(ctx, v, PROP, origin=W.tree_text(t)[:300])
        if len(ctx.samples) < 6 and getattr(v, "simplified", 1) is None and iv.readable(v):
            ctx.sample({"tree": W.tree_text(t)[:200], "text": str(v), "structure": iv.describe(v)})

    def per_case(tree, pool):
        eval_tree(ctx, tree, on_node, prop=PROP)
    return per_case


def _suffixes():
    return ["", "a1", "rc1", ".post1", ".dev1", "a1.post1", ".post1.dev1", "b2.dev0"]


def _stratum(ctx):
    """Neighbourhood of the ~= / ==X.* / !=X.* / !=V renderings, enumerated (sharded by index)."""
    bases = [(1,), (2, 3), (1, 0), (2, 3, 1), (1, 0, 0), (0, 9), (2, 3, 1, 4), (1, 9, 0, 0), (0,), (10, 10)]
    trees = []
    for rel in bases:
        lo_rel = ".".join(map(str, rel))
        for pos in range(len(rel)):
            for delta in (1, 2):
                head = list(rel[:pos]) + [rel[pos] + delta]
                for pad in range(0, 3):
                    for tail in ((), (1,)):
                        hi_rel = ".".join(map(str, head + [0] * pad + list(tail)))
                        for ep in ("", "1!"):
                            for ls, hs in itertools.product(_suffixes()[:6], ["", "a1", ".post1", ".dev1"]):
                                lo, hi = ep + lo_rel + ls, ep + hi_rel + hs
                                for lop, hop in ((">=", "<"), (">", "<"), (">=", "<=")):
                                    trees.append(["and", ["leaf", f"{lop}{lo}"], ["leaf", f"{hop}{hi}"]])
                                trees.append(["or", ["leaf", f"<{lo}"], ["leaf", f">={hi}"]])
                                trees.append(["or", ["leaf", f"<{lo}"], ["leaf", f">{hi}"]])
        # upper bound differing from lo only *beyond* lo's own length:  <X || >=X.1,  >=X,<X.0.1 ...
        for extra_len in (1, 2):
            for k in range(extra_len):
                tail = [0] * extra_len
                tail[k] = 1
                for pad in (0, 1):
                    hi_rel = ".".join(map(str, list(rel) + tail + [0] * pad))
                    for ep in ("", "1!"):
                        lo, hi = ep + lo_rel, ep + hi_rel
                        trees.append(["or", ["leaf", f"<{lo}"], ["leaf", f">={hi}"]])
                        trees.append(["and", ["leaf", f">={lo}"], ["leaf", f"<{hi}"]])
                        trees.append(["or", ["leaf", f"<{lo}.0"], ["leaf", f">={hi}"]])
        # bounds in different epochs (index 0 of the padded comparison is the epoch)
        for lo_ep, hi_ep in (("", "1!"), ("1!", "2!"), ("", "2!")):
            for hi_rel in ("0", "0.0", "1", "0.1", lo_rel):
                for ls in ("", "a1", ".dev0", ".post1"):
                    lo, hi = lo_ep + lo_rel + ls, hi_ep + hi_rel
                    trees.append(["and", ["leaf", f">={lo}"], ["leaf", f"<{hi}"]])
                    trees.append(["leaf", f">={lo},<{hi}"])
                    trees.append(["or", ["leaf", f"<{lo}"], ["leaf", f">={hi}"]])
        for s in _suffixes():
            v = lo_rel + s
            trees.append(["or", ["leaf", f"<{v}"], ["leaf", f">{v}"]])
            trees.append(["not", ["leaf", f"=={v}"]])
            trees.append(["not", ["leaf", f"!={v}"]])
            trees.append(["and", ["leaf", f">={v}"], ["leaf", f"<={v}"]])
            if not s:
                trees.append(["not", ["leaf", f"=={v}.*"]])
                trees.append(["not", ["not", ["leaf", f"=={v}.*"]]])
                trees.append(["not", ["not", ["leaf", f"!={v}.*"]]])
                if len(rel) > 1:
                    trees.append(["not", ["not", ["leaf", f"~={v}"]]])
                    trees.append(["not", ["leaf", f"~={v}"]])
    step = ctx.nshards if ctx.tier == "thorough" else ctx.nshards * 6
    per = _case(ctx)
    n = 0
    for i in range(ctx.shard + (ctx.seed % 6) * ctx.nshards if ctx.tier == "quick" else ctx.shard, len(trees), step):
        t = trees[i]
        ctx.cases += 1
        n += 1
        ctx.current_case = {"kind": "tree", "tree": t}
        ctx.guarded(10.0, per, t, None)
    ctx.extra["stratum_cases"] = n
    ctx.extra["stratum_size"] = len(trees) if ctx.shard == 0 else 0


def _huge(ctx):
    """Unions of hundreds to thousands of ranges (pin lists, long exclusion chains): built through the operators
    and through the parser, rendered, parsed back.  Sizes past the interpreter's recursion limit on purpose."""
    from dep_logic.specifiers import parse_version_specifier

    rnd = ctx.rnd
    sizes = (100, 1100) if ctx.tier == "quick" else (100, 400, 1100, 1500, 3000)
    for n in sizes:
        for kind in ("pins", "exclusions", "ranges"):
            ctx.cases += 1
            ctx.current_case = {"kind": "huge", "n": n, "shape": kind}

            def go():
                if kind == "pins":
                    s = parse_version_specifier("||".join(f"=={2 * k}" for k in range(n)))
                elif kind == "exclusions":
                    s = parse_version_specifier(",".join(f"!={k}.{k % 7}" for k in range(n)))
                else:
                    parts = [parse_version_specifier(f">={3 * k},<{3 * k + 1}.{k % 5}") for k in range(n)]
                    rnd.shuffle(parts)
                    s = parts[0]
                    for p_ in parts[1:]:
                        s = s | p_
                specmon.roundtrip_check(ctx, s, PROP, origin=f"{kind} x {n}")
                ctx.shape(f"huge:{kind}")
                ctx.nontrivial("huge", kind, n)

            ctx.guarded(60.0 if ctx.tier == "quick" else 240.0, go)
    ctx.current_case = None


def run(ctx):
    _stratum(ctx)
    if ctx.shard == 0:
        _huge(ctx)
    run_trees(ctx, _case(ctx), scale=0.6)


def replay(ctx, case):
    if isinstance(case, dict) and case.get("kind") == "huge":
        _huge(ctx)
        return
    _case(ctx)(case["tree"], None)
