"""C15 - marker results are in normal form.

Deciding monitor: structural predicate at the *public boundary* - every value returned to the
workload by parse_marker, &, |, only(), exclude(), without_extras() (tree nodes) must be empty,
universal, a single atom / atom group with >= 2 values, or a compound with >= 2 distinct children
none of which is empty, universal or a compound of the same kind; is_empty()/is_any() true only on
the special classes.  Inner diagnostic (non-deciding) monitors on union_simplify /
intersect_simplify / union() record which path produced an offending shape.
"""
from __future__ import annotations

from .. import markermon as MM
from ..monitor import install
from ..workloads import markers as MW
from ._marker_common import run_trees

PROP = "C15"
ANCHORS = ['dep_logic.markers.multi:MultiMarker.of', 'dep_logic.markers.union:MarkerUnion.of', 'dep_logic.markers.multi:MultiMarker.union_simplify', 'dep_logic.markers.union:MarkerUnion.intersect_simplify', 'dep_logic.utils:union', 'dep_logic.utils:intersection', 'dep_logic.utils:cnf', 'dep_logic.utils:dnf', 'dep_logic.markers.multi:MultiMarker.exclude', 'dep_logic.markers.union:MarkerUnion.exclude', 'dep_logic.markers.single:EqualityMarkerUnion.replace', 'dep_logic.markers.single:InequalityMultiMarker.replace']
RULE = ("Operation trees over the well-defined atoms: parse, &, | (operands incl. EmptyMarker/AnyMarker, earlier "
        "results and re-parsed renderings), only/exclude/without_extras; small-scope strata: all string-atom triples "
        "on one variable, all python_version/python_full_version atom pairs, all extra triples, all 4-tuples of a "
        "two-variable atom mix in CNF/DNF shape. Every node value is one normal-form decision. "
        "Non-trivial/distinct: distinct results that are compounds (MultiMarker / MarkerUnion)."
        " Size strata: order twins behind self-combined ballast, compounds with 33-70 children, heavy term products.")
ASSUMPTIONS = [
    "normal form is demanded at the public boundary only (inside, intersection()/union() legitimately build raw compounds)",
]
MIN_EVENTS = {"normal-form": 3000}
MIN_SHAPES = {"result:MultiMarker": 100, "result:MarkerUnion": 100, "result:EqualityMarkerUnion": 5,
              "result:InequalityMultiMarker": 5, "result:EmptyMarker": 20, "result:AnyMarker": 20}
SHARDS = {"quick": 4, "thorough": 16}


def setup(ctx):
    MM.prepare(ctx)
    ctx.small_scope_revin = True
    ctx.diag = {}
    ctx.c15_kept = []
    M, single = MM.classes()
    import dep_logic.markers.multi as multi
    import dep_logic.markers.union as union
    import dep_logic.utils as U

    def diag(name):
        def post(args, kwargs, r):
            if r is not None and MM.is_marker(r) and MM.nf_defect(r) is not None:
                ctx.shape(f"diagnostic:{name} returned a non-normal shape")
                ctx.diag[name] = ctx.diag.get(name, 0) + 1
        return post

    install(M.MultiMarker, "union_simplify", diag("union_simplify"))
    install(M.MarkerUnion, "intersect_simplify", diag("intersect_simplify"))
    install(U, "union", diag("union()"), also=((multi, "union"), (union, "union")))


def _run_tree(ctx):
    M, single = MM.classes()

    def on_node(t, v, kids):
        if not MM.is_marker(v):
            return
        MM.normal_form_check(ctx, PROP, "boundary:" + t[0], v, origin=MW.tree_text(t)[:400])
        if len(ctx.c15_kept) < 500 and isinstance(v, (M.MultiMarker, M.MarkerUnion)) and ctx.cases % 7 == 0:
            ctx.c15_kept.append((v, repr(v), MW.tree_text(t)[:300]))
        ctx.shape("result:" + type(v).__name__)
        if isinstance(v, (M.MultiMarker, M.MarkerUnion)):
            ctx.nontrivial(repr(v))
            if len(ctx.samples) < 5 and ctx.cases % 97 == 5:
                ctx.sample({"tree": MW.tree_text(t)[:300], "result": repr(v)})

    def run_tree(tree):
        ctx.cases += 1
        ctx.current_case = {"kind": "mtree", "tree": tree}
        ctx.diag.clear()
        # every case starts with empty caches: the simplify diagnostics the F16 predicate relies on
        # must be produced by this case itself, not by an earlier one that left a cached result
        MM.clear_caches()
        MM.eval_marker_tree(ctx, tree, on_node, prop=PROP, watchdog=5.0 if ctx.tier == "quick" else 20.0)
    return run_tree


def _recheck_kept(ctx):
    """Results handed out earlier are looked at again after everything else ran: later operations must not have
    changed them (shared child tuples / value sets)."""
    from ..monitor import bump, violation

    for v, first, origin in ctx.c15_kept:
        bump("retained-result")
        now = repr(v)
        if now != first or MM.nf_defect(v) is not None and "with 1 child" not in (MM.nf_defect(v) or ""):
            if now != first:
                violation(PROP, "retained-result", "a result handed out earlier was changed by later operations",
                          {"first": first[:300], "now": now[:300], "origin": origin, "group": "mutation"})


def run(ctx):
    ctx.c15_kept = []
    run_trees(ctx, _run_tree(ctx), n_random=1500 if ctx.tier == "quick" else 30000, max_atoms=7 if ctx.tier == "quick" else 9)
    # literal-on-the-left in / not in atoms among ==/!= atoms and groups of the same variable (shapes only)
    ctx.small_scope_revin = False   # (the small-scope strata ran above; the second pass is random trees only)
    run_trees(ctx, _run_tree(ctx), n_random=300 if ctx.tier == "quick" else 5000, max_atoms=6, small_frac=0.0,
              cfg=MW.Cfg(rev_in=True, few_vars=["sys_platform", "os_name"]), seconds=6 if ctx.tier == "quick" else 60,
              strata=False)
    _recheck_kept(ctx)


def replay(ctx, case):
    MM.clear_caches()
    _run_tree(ctx)(case["tree"])
