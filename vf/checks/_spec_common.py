"""Shared specifier workload driver: expression trees evaluated through the monitored API."""
from __future__ import annotations

from ..models import intervals as iv
from ..monitor import CaseTimeout, oracle, violation
from ..workloads import specs as W

BUDGET = {"quick": (1500, 25.0), "thorough": (30000, 150.0)}  # (cases per shard, seconds per shard)


def eval_tree(ctx, tree, on_node=None, *, prop, exc_is_violation=True, allow=(ValueError,), arbitrary=False,
              node_calls_monitored=False):
    """Evaluate one tree under the monitors; returns (root_value | None, values in post-order)."""
    values = []
    stack = []

    def hook(t, v):
        n = {"not": 1, "and": 2, "or": 2}.get(t[0], 0)
        kids = stack[len(stack) - n:] if n else []
        if n:
            del stack[len(stack) - n:]
        stack.append(v)
        values.append(v)
        if on_node is not None:
            if node_calls_monitored:  # the node callback *is* workload (its library calls are observed)
                on_node(t, v, kids)
            else:
                with oracle():
                    on_node(t, v, kids)

    try:
        # half of the cases evaluate equal leaves to one shared object (aliasing between operands)
        root = W.build(tree, hook, {} if (ctx.cases % 2 == 0) else None)
    except CaseTimeout:
        raise
    except W.LeafError as e:
        ctx.inconclusive["leaf-rejected-by-parser (decided by C17)"] += 1
        ctx.extra.setdefault("leaf_errors", [])
        if len(ctx.extra["leaf_errors"]) < 5:
            ctx.extra["leaf_errors"].append(str(e)[:160])
        return None, values
    except Exception as e:  # noqa: BLE001
        if arbitrary and isinstance(e, allow):
            ctx.shape("arbitrary:raised-ValueError")
            return None, values
        if exc_is_violation:
            violation(prop, "tree-eval", f"operator raised {type(e).__name__}",
                      {"tree": W.tree_text(tree), "error": str(e)[:200]})
        return None, values
    return root, values


def run_trees(ctx, per_case, *, depth=(1, 4), arbitrary=False, hostile_p=0.3, closure_p=0.5, scale=1.0,
              large=(4, 60, 120)):
    """Generate and evaluate trees; per_case(tree, pool) does the work of one case."""
    n, secs = BUDGET[ctx.tier]
    n = int(n * scale)
    rnd = ctx.rnd
    closure: list = []
    ctx.stratum = "trees"
    t_start = ctx.elapsed()
    secs = secs * min(1.0, max(0.3, scale * 2))
    for i in range(n):
        if ctx.elapsed() - t_start > secs:
            ctx.extra["stopped_by_time_budget_after_cases"] = i
            break
        pool = W.version_pool(rnd)
        # reachability closure: earlier trees are reused as operands of later ones
        use_closure = closure if (closure and rnd.random() < closure_p) else None
        for _ in range(rnd.randint(1, 4)):
            tree = W.gen_tree(rnd, pool, rnd.randint(*depth), arbitrary=arbitrary, closure=use_closure,
                              hostile_p=hostile_p)
            if W.tree_size(tree) > 40:
                continue
            ctx.cases += 1
            ctx.current_case = {"kind": "tree", "tree": tree}
            ok, _ = ctx.guarded(10.0, per_case, tree, pool)
            if ok and W.tree_size(tree) <= 12 and rnd.random() < 0.3:
                closure.append(tree)
                if len(closure) > 200:
                    closure.pop(rnd.randrange(len(closure)))
    # large trees: unions of 20-80 ranges, long folds (sizes the random generator never reaches)
    if not large:
        ctx.current_case = None
        return
    ctx.stratum = "large-trees"
    n_large = large[0] if ctx.tier == "quick" else large[1]
    t_large = ctx.elapsed()
    done = 0
    for i in range(n_large):
        if ctx.elapsed() - t_large > (10 if ctx.tier == "quick" else 90):
            break
        tree = W.large_tree(rnd, large[2], shape=-1 if i == 0 else (8 if i == 1 else (i + ctx.shard + ctx.seed) % 9))
        ctx.cases += 1
        ctx.current_case = {"kind": "tree", "tree": tree}
        ok, _ = ctx.guarded(30.0 if ctx.tier == "quick" else 120.0, per_case, tree, None)
        done += bool(ok)
    ctx.extra["large_trees"] = ctx.extra.get("large_trees", 0) + done
    ctx.shape("workload:large-tree", done)
    ctx.stratum = "-"
    ctx.current_case = None


def spec_laws(a, b, c):
    """(name, lhs thunk, rhs thunk | None) - the Boolean-algebra identities of C14, plus compound forms in
    which the same sub-results meet again (aliasing between operands that descend from one object)."""
    yield "commutative-and", lambda: a & b, lambda: b & a
    yield "commutative-or", lambda: a | b, lambda: b | a
    yield "associative-and", lambda: (a & b) & c, lambda: a & (b & c)
    yield "associative-or", lambda: (a | b) | c, lambda: a | (b | c)
    yield "idempotent-and", lambda: a & a, lambda: a
    yield "idempotent-or", lambda: a | a, lambda: a
    yield "absorption-and", lambda: a & (a | b), lambda: a
    yield "absorption-or", lambda: a | (a & b), lambda: a
    yield "distributive-and", lambda: a & (b | c), lambda: (a & b) | (a & c)
    yield "distributive-or", lambda: a | (b & c), lambda: (a | b) & (a | c)
    yield "involution", lambda: ~~a, lambda: a
    yield "de-morgan-and", lambda: ~(a & b), lambda: ~a | ~b
    yield "de-morgan-or", lambda: ~(a | b), lambda: ~a & ~b
    yield "complement-and", lambda: a & ~a, None
    yield "complement-or", lambda: a | ~a, None
    yield "de-morgan-distributive-and", lambda: ~(a & (b | c)), lambda: ~(a & b) & ~(a & c)
    yield "de-morgan-distributive-or", lambda: ~(a | (b & c)), lambda: ~(a | b) | ~(a | c)
    yield "difference", lambda: (a & ~b) | (a & b), lambda: a
    yield "symmetric-difference", lambda: (a & ~b) | (b & ~a), lambda: (a | b) & ~(a & b)


def small_scope_leaves():
    from ..workloads.specs import hash_twin

    vals = ["1", "2", hash_twin("1")]
    leaves = [f"{op}{v}" for v in vals for op in (">=", ">", "<=", "<", "==", "!=")] + ["", "<empty>"]
    return leaves


def small_scope_triples(ctx, per_triple):
    """Every ordered triple of leaf specifiers over a 2-version alphabet (plus a hash twin of one of
    them), each leaf parsed ONCE per shard so that the very same objects take part in thousands of
    operations (shared sub-results, per-object caches, hash-keyed tables)."""
    import itertools

    from dep_logic.specifiers import parse_version_specifier

    texts = small_scope_leaves()
    objs = [parse_version_specifier(t) for t in texts]
    triples = list(itertools.product(range(len(objs)), repeat=3))
    step = ctx.nshards * (1 if ctx.tier == "thorough" else 10)
    off = ctx.shard if ctx.tier == "thorough" else ctx.shard + (ctx.seed % 10) * ctx.nshards
    n = 0
    for idx in range(off, len(triples), step):
        i, j, k = triples[idx]
        ctx.cases += 1
        n += 1
        ctx.current_case = {"kind": "small-triple", "texts": [texts[i], texts[j], texts[k]]}
        ctx.guarded(20.0, per_triple, (objs[i], objs[j], objs[k]), (texts[i], texts[j], texts[k]))
    ctx.extra["small_scope_triples"] = n
    ctx.extra["small_scope_alphabet"] = len(texts)
    ctx.current_case = None
