"""C02 - marker & and | evaluate as conjunction / disjunction.

Deciding monitors: semantic post-conditions on every combinator of the marker layer (the 14
__and__/__or__ methods, MultiMarker.of / MarkerUnion.of, cnf, dnf, intersection, union,
union_simplify, intersect_simplify, _merge_single_markers, _merge_python_version_single_markers,
the group replace()), each comparing the library's own evaluate() of the arguments and of the
result on operand-derived critical environments; plus the same oracle at every node of the
generated operation trees and is_empty()/is_any() against the observed truth values.
"""
from __future__ import annotations

import itertools

from .. import markermon as MM
from ..monitor import bump, oracle, violation
from ..workloads import markers as MW

PROP = "C02"
ANCHORS = ['dep_logic.markers.single:MarkerExpression.__and__', 'dep_logic.markers.single:MarkerExpression.__or__', 'dep_logic.markers.single:EqualityMarkerUnion.__and__', 'dep_logic.markers.single:EqualityMarkerUnion.__or__', 'dep_logic.markers.single:InequalityMultiMarker.__and__', 'dep_logic.markers.single:InequalityMultiMarker.__or__', 'dep_logic.markers.single:_merge_single_markers', 'dep_logic.markers.single:_merge_python_version_single_markers', 'dep_logic.markers.single:_normalize_python_version_specifier', 'dep_logic.markers.multi:MultiMarker.of', 'dep_logic.markers.multi:MultiMarker.union_simplify', 'dep_logic.markers.union:MarkerUnion.of', 'dep_logic.markers.union:MarkerUnion.intersect_simplify', 'dep_logic.utils:cnf', 'dep_logic.utils:dnf', 'dep_logic.utils:union', 'dep_logic.utils:intersection']
RULE = ("Strata: (main) seeded marker pairs over the well-defined atom classes, narrowed vocabularies (1-2 string "
        "variables, 2-4 literals) so that merges/absorptions/contradictions happen, <=7 (quick) / <=9 (thorough) atoms "
        "per pair, operands also EmptyMarker/AnyMarker, earlier results and re-parsed renderings reused as operands; "
        "(exhaustive-string) all ordered atom triples (x o y) o z on one string variable over literals {a,b,ab,''} and "
        "4 operators; (exhaustive-python) all ordered atom pairs on python_version/python_full_version over every "
        "operator and a 5-value grid, evaluated on the interpreter grid; (exhaustive-extra) all triples over 3 names x "
        "{==,!=} on every subset of names; (prerelease) main markers on pre/dev/post interpreters; (pyin) with "
        "python_version in/not in lists; (revin) with literal-on-the-left in/not in. One evaluation = one environment "
        "decided for one monitored event. Non-trivial/distinct: operand-pair texts whose result is not one of the "
        "operands verbatim."
        " Size strata (light mode): order twins, compounds with 33-70 children, intersections of three flat 7-9-way unions decided at the tree nodes; witness environments for every conjunction.")
ASSUMPTIONS = [
    "the oracle is the library's own evaluate() on arguments vs result (the statement itself); C03 ties evaluate() to packaging",
    "environments are sampled from operand-derived critical values: python_version is always major.minor of python_full_version",
    "cases that exceed the per-case watchdog (CNF/DNF blow-up) are inconclusive, never violations",
]
MIN_EVENTS = {"MarkerExpression.__and__": 200, "MarkerExpression.__or__": 200, "MultiMarker.of": 200,
              "MarkerUnion.of": 200, "cnf": 50, "dnf": 50, "intersection": 50, "union": 50,
              "_merge_single_markers": 200, "_merge_python_version_single_markers": 20,
              "EqualityMarkerUnion.__and__": 20, "EqualityMarkerUnion.__or__": 20,
              "InequalityMultiMarker.__and__": 20, "InequalityMultiMarker.__or__": 20,
              "MultiMarker.union_simplify": 20, "MarkerUnion.intersect_simplify": 20, "node": 300}
SHARDS = {"quick": 6, "thorough": 16}
SHARD_TIMEOUT = {"quick": 300, "thorough": 1800}


def setup(ctx):
    MM.prepare(ctx)
    MM.install_c02(ctx, PROP)


def _node(ctx):
    M, single = MM.classes()

    def on_node(t, v, kids):
        k = t[0]
        if k not in ("and", "or") or not all(MM.is_marker(x) for x in kids + [v]):
            return
        bump("node")
        comb = MM.AND if k == "and" else MM.OR
        a, b = kids
        n = MM.equiv_check(ctx, PROP, "node", f"(a {'&' if k == 'and' else '|'} b) does not evaluate as the "
                           f"{'conjunction' if k == 'and' else 'disjunction'}", [a, b], v, comb, cap=ctx.env_cap_top,
                           detail={"op": k})
        # repeating the call on the same operand objects must give an equal result with the same meaning
        try:
            again = (a & b) if k == "and" else (a | b)
            if type(again) is not type(v) or not (again == v):
                MM.equiv_check(ctx, PROP, "node", "repeating the same call on the same objects gives a different meaning",
                               [v], again, lambda x: x[0], cap=40, detail={"op": k, "first": MM.mtext(v), "second": MM.mtext(again),
                                                                           "group": "repeat"})
        except MM.CaseTimeout:
            raise
        except Exception as e:  # noqa: BLE001
            violation(PROP, "node", f"repeating the same call raised {type(e).__name__}",
                      {"op": k, "a": MM.mtext(a), "b": MM.mtext(b), "group": "repeat"})
        if v is not a and v is not b:
            ctx.nontrivial(k, MM.mtext(a), MM.mtext(b))
        ctx.shape("result:" + type(v).__name__)
        if len(ctx.samples) < 6 and isinstance(v, (M.MultiMarker, M.MarkerUnion)) and ctx.cases % 40 == 3:
            ctx.sample({"a": MM.mtext(a), "op": k, "b": MM.mtext(b), "result": MM.mtext(v), "environments_decided": n,
                        "stratum": ctx.stratum})
    return on_node


def _run_tree(ctx, tree, watchdog=None):
    ctx.cases += 1
    ctx.current_case = {"kind": "mtree", "tree": tree, "stratum": ctx.stratum}
    MM.eval_marker_tree(ctx, tree, _node(ctx), prop=PROP, watchdog=watchdog or (5.0 if ctx.tier == "quick" else 20.0))


def _random_stratum(ctx, name, cfg, n, max_atoms, closure_ok=True):
    ctx.stratum = name
    MM.clear_caches()
    rnd = ctx.rnd
    if name == "pyin":
        # history: the same comma lists used earlier in the process on *other* version variables (outside the
        # quantifier themselves, executed unmonitored) - process-wide state keyed on the literal must not leak
        from dep_logic.markers import parse_marker

        with MM.oracle():
            for lst in MW.PYIN_LISTS:
                for var, bound in (("python_full_version", "3.8.1"), ("platform_release", "4.0")):
                    for op in ("in", "not in"):
                        try:
                            m = parse_marker(f'{var} {op} "{lst}"')
                            m & parse_marker(f'{var} >= "{bound}"')
                            m | parse_marker(f'{var} < "{bound}"')
                        except Exception:  # noqa: BLE001
                            pass
        ctx.shape("pyin:history-prelude")
        # probes right after that history: the same literals, now on python_version, merged with comparison atoms
        for lst in MW.PYIN_LISTS:
            for op in ("in", "not in"):
                a = ["m", f'python_version {op} "{lst}"']
                for b, glue in ((["m", 'python_full_version >= "3.8.1"'], "and"), (["m", 'python_full_version < "3.9.3"'], "or"),
                                (["m", 'python_version >= "3.9"'], "and")):
                    _run_tree(ctx, [glue, a, b])
                    _run_tree(ctx, [glue, b, a])
        ctx.shape("pyin:probes-after-history")
    closure = []
    t0 = ctx.elapsed()
    limit = (22 if ctx.tier == "quick" else 200) * (1.0 if name == "main" else 0.35)
    for i in range(n):
        if ctx.elapsed() - t0 > limit:
            ctx.extra[f"{name}_stopped_by_time_budget_after"] = i
            break
        tree = MM.gen_marker_tree(rnd, cfg, max_atoms, closure if closure_ok else None)
        if name == "revin":
            MM.clear_caches()  # keep cross-case cache collisions of reversed in-atoms (C10) out of C02
            if tree[0] == "str":
                tree = tree[1]
        _run_tree(ctx, tree)
        if name == "main" and rnd.random() < 0.25:
            for special in (["empty"], ["any"]):
                for op in ("and", "or"):
                    _run_tree(ctx, [op, tree, special])
                    _run_tree(ctx, [op, special, tree])
        if closure_ok and rnd.random() < 0.2 and MW.tree_atoms(tree) <= max_atoms - 2:
            closure.append(tree)
            if len(closure) > 100:
                closure.pop(rnd.randrange(len(closure)))
    ctx.shape(f"stratum:{name}", 1)


def exhaustive_string(ctx):
    """All (x o y) o z over one string variable, literals {a,b,ab,''}, 4 operators: reaches the
    Equality/Inequality group branches with the right relations between literals."""
    ctx.stratum = "main"
    atoms = [f'os_name {op} "{lit}"' for op in ("==", "!=", "in", "not in") for lit in ("a", "b", "ab", "")]
    idx = 0
    step = ctx.nshards * (1 if ctx.tier == "thorough" else 3)
    off = ctx.shard + (ctx.seed % 3) * ctx.nshards if ctx.tier == "quick" else ctx.shard
    for x, y, z in itertools.product(atoms, repeat=3):
        for o1, o2 in (("and", "and"), ("and", "or"), ("or", "and"), ("or", "or")):
            idx += 1
            if idx % step != off % step:
                continue
            inner = [o1, ["m", x], ["m", y]]
            _run_tree(ctx, [o2, inner, ["m", z]])
            if idx % 2:
                _run_tree(ctx, [o2, ["m", z], inner])
    # group x group
    groups = [f'os_name == "{p}" or os_name == "{q_}"' for p, q_ in (("a", "b"), ("b", "ab"), ("a", "ab"))] + \
             [f'os_name != "{p}" and os_name != "{q_}"' for p, q_ in (("a", "b"), ("b", "ab"), ("a", ""))]
    if ctx.shard == 0:
        for g1, g2 in itertools.product(groups, repeat=2):
            for o in ("and", "or"):
                _run_tree(ctx, [o, ["m", g1], ["m", g2]])
    ctx.shape("stratum:exhaustive-string")


def exhaustive_python(ctx):
    ctx.stratum = "main"
    atoms = []
    for var, vals in (("python_version", ["3.7", "3.8", "3.9", "3.10", "3", "3.8.0", "4"]),
                      ("python_full_version", ["3.7.9", "3.8.0", "3.8", "3.8.1", "3.9.0"])):
        for v in vals:
            for op in ("==", "!=", "<", "<=", ">", ">="):
                atoms.append(f'{var} {op} "{v}"')
            if "." in v:
                atoms.append(f'{var} ~= "{v}"')
            if not (var == "python_version" and v.count(".") >= 2):
                # python_version has two components: a wildcard below the minor is not a well-defined atom
                atoms.append(f'{var} == "{v}.*"')
                atoms.append(f'{var} != "{v}.*"')
            for rop in ("<", "<=", ">", ">="):   # literal on the left, every ordering operator
                atoms.append(f'"{v}" {rop} {var}')
    pairs = list(itertools.product(atoms, repeat=2))
    step = ctx.nshards * (1 if ctx.tier == "thorough" else 4)
    off = ctx.shard + (ctx.seed % 4) * ctx.nshards if ctx.tier == "quick" else ctx.shard
    from dep_logic.markers import parse_marker
    from dep_logic.markers.single import MarkerExpression

    generated = {}  # atoms the library itself produced (not in the input alphabet) -> tree producing them
    atomset = set(atoms)

    def level1(tree):
        _run_tree(ctx, tree)
        with MM.oracle():
            try:
                r = MW.build(tree)
            except Exception:  # noqa: BLE001
                return
            if isinstance(r, MarkerExpression) and str(r) not in atomset and str(r) not in generated:
                generated[str(r)] = tree

    for i in range(off, len(pairs), step):
        x, y = pairs[i]
        if x.startswith('"') and y.startswith('"'):
            # both operands literal-first: the merge must not be served from a cache filled by the (equal-comparing)
            # variable-first pair - nor leave anything behind for it
            MM.clear_caches()
            ctx.shape("pair:both-literal-first")
        level1([("and", "or")[i % 2], ["m", x], ["m", y]])
        if ctx.tier == "thorough":
            level1([("or", "and")[i % 2], ["m", x], ["m", y]])
    ctx.extra["exhaustive_python_pairs"] = len(pairs) if ctx.shard == 0 else 0
    # reachability closure, one level: every library-generated atom against every input atom
    n2 = 0
    gen = sorted(generated.items())
    for gi, (text, tree) in enumerate(gen):
        for zi, z in enumerate(atoms):
            if ctx.tier == "quick" and (gi * 31 + zi + ctx.seed) % 6:
                continue
            _run_tree(ctx, [("and", "or")[(gi + zi) % 2], tree, ["m", z]])
            n2 += 1
    ctx.extra["library_generated_python_atoms"] = len(gen)
    ctx.extra["closure_level2_cases"] = n2
    ctx.shape("stratum:exhaustive-python")


def exhaustive_extra(ctx):
    ctx.stratum = "main"
    atoms = [f'extra {op} "{n}"' for op in ("==", "!=") for n in ("a", "b", "Foo_Bar")]
    trees = []
    for x, y, z in itertools.product(atoms, repeat=3):
        for o1, o2 in (("and", "or"), ("or", "and"), ("and", "and"), ("or", "or")):
            trees.append([o2, [o1, ["m", x], ["m", y]], ["m", z]])
    for i in range(ctx.shard, len(trees), ctx.nshards * (1 if ctx.tier == "thorough" else 2)):
        _run_tree(ctx, trees[i])
    ctx.shape("stratum:exhaustive-extra")
    # the same with atoms built by the public constructor, whose literals keep their spelling: different texts of
    # one normalised name (PEP 685) and a different name, all pairs, one further level
    spell = ["Foo_Bar", "foo-bar", "FOO.bar", "baz"]
    xa = [["mx", "extra", op, n] for op in ("==", "!=") for n in spell]
    trees = []
    for x, y in itertools.product(xa, repeat=2):
        for o in ("and", "or"):
            trees.append([o, x, y])
            trees.append([o, [o, x, y], ["m", 'sys_platform == "linux"']])
            trees.append(["or" if o == "and" else "and", [o, x, y], xa[0]])
    for i in range(ctx.shard, len(trees), ctx.nshards):
        _run_tree(ctx, trees[i])
    ctx.shape("stratum:constructor-built-extras")


def run(ctx):
    if ctx.shard == 0:  # the repository's own pinned examples as one more workload (outcomes ignored)
        from ..repotests import run_repo_tests

        run_repo_tests(ctx, ("marker",), before_each=lambda: setattr(ctx, 'env_budget', ctx.env_cap_top))
    quick = ctx.tier == "quick"
    exhaustive_string(ctx)
    exhaustive_python(ctx)
    exhaustive_extra(ctx)
    _random_stratum(ctx, "main", MW.Cfg(), 500 if quick else 8000, 7 if quick else 9)
    from ._marker_common import size_strata

    MM.clear_caches()
    size_strata(ctx, lambda t: _run_tree(ctx, t), light=True)   # order twins, 33-70 children, term products of 500+
    _random_stratum(ctx, "prerelease", MW.Cfg(), 80 if quick else 1200, 6)
    _random_stratum(ctx, "prelit", MW.Cfg(prelit=True, extras=False, few_vars=["os_name"]), 80 if quick else 1200, 6)
    _random_stratum(ctx, "pyin", MW.Cfg(pyin=True, few_vars=["os_name"]), 80 if quick else 1200, 6)
    _random_stratum(ctx, "revin", MW.Cfg(rev_in=True, few_vars=["sys_platform", "os_name"]), 80 if quick else 1200, 6,
                    closure_ok=False)
    MM.clear_caches()
    ctx.stratum = "main"
    ctx.current_case = None


def replay(ctx, case):
    if isinstance(case, dict) and case.get("kind") == "repo-test":
        from ..repotests import run_repo_tests

        run_repo_tests(ctx, nodeid=case["nodeid"])
        return
    MM.clear_caches()
    ctx.stratum = case.get("stratum", "main")
    ctx.boundary_only = ctx.stratum == "heavy"
    _run_tree(ctx, case["tree"], watchdog=90.0)
