"""C12 - only() / exclude() / without_extras() eliminate variables soundly.

Deciding monitors: post-conditions on the three methods of all seven marker classes (recursive
calls made by the library are monitored too): the result mentions no variable outside `names`
(only) / not the removed variable (exclude, without_extras) at any depth incl. inside group atoms;
m => m.only(...) on critical environments; only() over all mentioned names and exclude() of an
unmentioned name leave the evaluation vector unchanged.  The same oracle runs at the nodes of the
operation trees.
"""
from __future__ import annotations

import itertools

from .. import markermon as MM
from ..monitor import STATE, CaseTimeout, bump, install, violation
from ..workloads import markers as MW
from ._marker_common import mentioned, run_trees

PROP = "C12"
ANCHORS = ['dep_logic.markers.single:SingleMarker.only', 'dep_logic.markers.single:SingleMarker.exclude', 'dep_logic.markers.single:SingleMarker.without_extras', 'dep_logic.markers.multi:MultiMarker.only', 'dep_logic.markers.multi:MultiMarker.exclude', 'dep_logic.markers.union:MarkerUnion.only', 'dep_logic.markers.union:MarkerUnion.exclude']
RULE = ("Operation trees as in C15 with only/exclude/without_extras applied to compound results (names drawn from "
        "the variables the operand mentions 80% of the time; all subsets of mentioned variables when <=4), incl. "
        "the nested/factored shapes of the small-scope strata. Every call of the three methods on any class (also "
        "the recursive ones) is one monitored event. Non-trivial/distinct: (marker, subset) with a compound marker "
        "and a proper non-empty subset of its variables."
        " Size strata: order twins behind self-combined ballast, compounds with 33-70 children, heavy term products.")
ASSUMPTIONS = [
    "implication / equivalence are decided by evaluate() on sampled critical environments",
    "nothing is demanded of exclude() on a mentioned variable beyond non-mention (statement)",
]
MIN_EVENTS = {"MultiMarker.only": 200, "MarkerUnion.only": 200, "MultiMarker.exclude": 200, "MarkerUnion.exclude": 200,
              "MarkerExpression.only": 500, "MarkerExpression.exclude": 500, "without_extras": 100}
MIN_SHAPES = {"only:proper-subset-of-compound": 100, "exclude:mentioned-in-compound": 100, "exclude:unmentioned": 50,
              "only:all-mentioned": 50}
SHARDS = {"quick": 4, "thorough": 16}


def setup(ctx):
    MM.prepare(ctx)
    M, single = MM.classes()

    def budget():
        if ctx.env_budget <= 0:
            return 10 if ctx.rnd.random() < 0.2 else 0
        ctx.env_budget -= 24
        return 24

    def check(kind, self, names, r, where):
        """kind: 'only' (names kept) | 'exclude' (names removed)."""
        if not MM.is_marker(r):
            violation(PROP, where, "result is not a marker", {"marker": MM.mtext(self), "result": repr(r)})
            return
        have = MW.names_of(self)
        got = MW.names_of(r)
        compound = isinstance(self, (M.MultiMarker, M.MarkerUnion))
        if kind == "only":
            bad = got - set(names)
            if have <= set(names):
                ctx.shape("only:all-mentioned")
            elif compound and (have & set(names)):
                ctx.shape("only:proper-subset-of-compound")
                ctx.nontrivial("only", MM.mtext(self), tuple(sorted(names)))
        else:
            bad = got & set(names)
            if have & set(names):
                if compound:
                    ctx.shape("exclude:mentioned-in-compound")
                    ctx.nontrivial("exclude", MM.mtext(self), tuple(sorted(names)))
            else:
                ctx.shape("exclude:unmentioned")
        ctx.evaluations += 1
        if ctx.rnd.random() < 0.15:
            try:
                again = self.only(*names) if kind == "only" else self.exclude(names[0])
                if type(again) is not type(r) or not (again == r):
                    violation(PROP, where, f"{kind}() repeated on the same marker gives a different result",
                              {"marker": MM.mtext(self), "names": sorted(names), "first": MM.mtext(r), "second": MM.mtext(again),
                               "group": "repeat"})
            except CaseTimeout:
                raise
            except Exception as e:  # noqa: BLE001
                violation(PROP, where, f"{kind}() repeated raised {type(e).__name__}", {"marker": MM.mtext(self), "group": "repeat"})
        if bad:
            violation(PROP, where, f"{kind}(): the result still mentions {sorted(bad)}",
                      {"marker": MM.mtext(self), "names": sorted(names), "result": MM.mtext(r), "group": kind + "-mention"})
            return
        cap = budget()
        if STATE.nest == 0:
            # the call the workload itself made: its environments are never crowded out by the (possibly
            # dozens of) inner only()/exclude() calls on the children, which drew on the same budget
            wide = len(getattr(self, "markers", ())) > 16
            cap = max(cap, (90 if wide else 30) if ctx.tier == "quick" else (200 if wide else 60))
            ctx.shape("outermost-call-decided")
        if not cap:
            return
        if kind == "only":
            if have <= set(names):
                MM.equiv_check(ctx, PROP, where, "only() over all mentioned variables changed the meaning", [self], r,
                               lambda v: v[0], cap=cap, detail={"names": sorted(names), "group": "only-all"})
            else:
                # implication: every environment satisfying m satisfies m.only(...)
                envs = MW.environments(ctx.rnd, [self, r], cap)
                allnames = have | got
                for env in envs:
                    try:
                        a = MM.ev(self, env)
                        b = MM.ev(r, env)
                    except CaseTimeout:
                        raise
                    except Exception:  # noqa: BLE001
                        ctx.inconclusive["evaluation-raised"] += 1
                        continue
                    ctx.evaluations += 1
                    if a and not b:
                        violation(PROP, where, "m does not imply m.only(names)",
                                  {"marker": MM.mtext(self), "names": sorted(names), "result": MM.mtext(r),
                                   "env": MW.env_brief(env, allnames), "group": "only-implication"},
                                  live={"operands": [self], "result": r, "env": env})
                        return
        elif not (have & set(names)):
            MM.equiv_check(ctx, PROP, where, "exclude() of an unmentioned variable changed the meaning", [self], r,
                           lambda v: v[0], cap=cap, detail={"names": sorted(names), "group": "exclude-unmentioned"})

    def post_only(cls):
        def post(args, kwargs, r):
            check("only", args[0], list(args[1:]), r, f"{cls}.only")
        return post

    def post_excl(cls):
        def post(args, kwargs, r):
            check("exclude", args[0], [args[1]], r, f"{cls}.exclude")
        return post

    def post_noextra(cls):
        def post(args, kwargs, r):
            bump("without_extras")
            check("exclude", args[0], ["extra"], r, f"{cls}.without_extras")
        return post

    for cls in (M.MultiMarker, M.MarkerUnion, M.AnyMarker, M.EmptyMarker):
        n = cls.__name__
        install(cls, "only", post_only(n))
        install(cls, "exclude", post_excl(n))
        install(cls, "without_extras", post_noextra(n), mon=f"{n}.without_extras")
    # the three single-marker classes inherit from SingleMarker: one wrapper on the base covers them
    SM = single.SingleMarker
    install(SM, "only", post_only("MarkerExpression"), mon="MarkerExpression.only")
    install(SM, "exclude", post_excl("MarkerExpression"), mon="MarkerExpression.exclude")
    install(SM, "without_extras", post_noextra("SingleMarker"), mon="SingleMarker.without_extras")


def _run_tree(ctx):
    M, single = MM.classes()

    def on_node(t, v, kids):
        if len(ctx.samples) < 5 and t[0] in ("only", "exclude") and isinstance(kids[0], (M.MultiMarker, M.MarkerUnion)) \
                and ctx.cases % 37 == 1:
            ctx.sample({"marker": MM.mtext(kids[0]), "op": t[0], "names": t[2], "result": MM.mtext(v)})

    def run_tree(tree):
        ctx.cases += 1
        ctx.current_case = {"kind": "mtree", "tree": tree}
        before = ctx.timeouts
        MM.eval_marker_tree(ctx, tree, on_node, prop=PROP, watchdog=5.0 if ctx.tier == "quick" else 20.0)
        # all subsets of the mentioned variables of the tree value (when <= 4); not for a tree that just hit the
        # watchdog - every derived case would hit it again
        if tree[0] in ("and", "or") and ctx.rnd.random() < 0.3 and ctx.timeouts == before:
            names = mentioned(tree)
            if 1 <= len(names) <= 4:
                for k in range(1, len(names) + 1):
                    for sub in itertools.combinations(names, k):
                        ctx.cases += 1
                        ctx.current_case = {"kind": "mtree", "tree": ["only", tree, list(sub)]}
                        MM.eval_marker_tree(ctx, ["only", tree, list(sub)], None, prop=PROP, watchdog=5.0)
                for nm in names + ["platform_version"]:
                    ctx.current_case = {"kind": "mtree", "tree": ["exclude", tree, nm]}
                    MM.eval_marker_tree(ctx, ["exclude", tree, nm], None, prop=PROP, watchdog=5.0)
    return run_tree


def _of_built(ctx, run_tree):
    """Markers assembled with the public normalising constructors MultiMarker.of / MarkerUnion.of from parsed pieces:
    nesting that parse / & / | never produce (a conjunction inside a union inside a conjunction ...)."""
    rnd = ctx.rnd
    cfg = MW.Cfg()
    n = 250 if ctx.tier == "quick" else 4000

    def piece(depth):
        if depth == 0 or rnd.random() < 0.35:
            return ["m", MW.text(rnd, cfg, rnd.choice([0, 0, 1]))]
        kind = rnd.choice(["mof", "uof"])
        return [kind] + [piece(depth - 1) for _ in range(rnd.randint(2, 3))]

    t0 = ctx.elapsed()
    for i in range(n):
        if ctx.elapsed() - t0 > (20 if ctx.tier == "quick" else 240):
            ctx.extra["of_built_stopped_by_time_budget_after"] = i
            break
        t = piece(3)
        if t[0] == "m" or MW.tree_atoms(t) > 8:
            continue
        names = mentioned(t)
        if not names:
            continue
        for _k in range(2):
            sub = rnd.sample(names, rnd.randint(1, len(names)))
            run_tree(["only", t, sub])
            run_tree(["exclude", t, rnd.choice(names)])
        ctx.shape("workload:of-built")


def run(ctx):
    if ctx.shard == 0:  # the repository's own pinned examples as one more workload (outcomes ignored)
        from ..repotests import run_repo_tests

        run_repo_tests(ctx, ("marker",), before_each=lambda: setattr(ctx, 'env_budget', ctx.env_cap_top))
    _of_built(ctx, _run_tree(ctx))
    run_trees(ctx, _run_tree(ctx), n_random=450 if ctx.tier == "quick" else 15000, max_atoms=7 if ctx.tier == "quick" else 9,
              unary_p=0.6, small_frac=0.4 if ctx.tier == "quick" else 1.0)


def replay(ctx, case):
    if isinstance(case, dict) and case.get("kind") == "repo-test":
        from ..repotests import run_repo_tests

        run_repo_tests(ctx, nodeid=case["nodeid"])
        return
    MM.clear_caches()
    ctx.current_case = case
    MM.eval_marker_tree(ctx, case["tree"], None, prop=PROP, watchdog=60.0)
