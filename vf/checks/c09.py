"""C09 - platform tag sets and preference order follow PEP 600 / PEP 656 / macOS rules.

Deciding monitors: for every grid point the real Platform.compatible_tags is compared with an
independent rule oracle (list equality for manylinux/macOS/Windows, set equality for musllinux,
legacy fat* formats ignored); post-condition on EnvSpec._evaluate_platform: the score of every
accepted tag is len(list)+1-index with `any` last, and tags just outside the set score None.
The oracle itself is cross-checked against packaging.tags with its glibc/musl probes stubbed.
"""
from __future__ import annotations

from unittest import mock

from ..models import platforms as po
from ..monitor import bump, install, violation

PROP = "C09"
ANCHORS = ['dep_logic.tags.platform:Platform.compatible_tags', 'dep_logic.tags.tags:EnvSpec._evaluate_platform', 'dep_logic.tags.platform:Arch.get_minimum_manylinux_minor', 'dep_logic.tags.platform:Arch.get_mac_binary_formats']
RULE = ("Exhaustive grid of the quantifier: manylinux 2.5-2.50 x {x86_64, aarch64, armv7l, ppc64le, ppc64, s390x, "
        "riscv64}; musllinux 1.1-1.5 x the same; macOS 10.4-10.16 and 11-30 (minor 0 and 3) x {x86_64, arm64}; "
        "Windows x {x86, amd64, arm64}; every platform object is obtained through Platform.parse of its string. "
        "One evaluation = one tag decision (list position or membership). Non-trivial/distinct: grid points whose "
        "tag list has more than one entry.")
ASSUMPTIONS = [
    "legacy fat*/fat32/fat64 macOS formats and the musllinux list order are not claimed (statement)",
    "oracle cross-checked against packaging.tags.mac_platforms / packaging._manylinux / packaging._musllinux with "
    "_get_glibc_version, _get_musl_version, _have_compatible_abi, _get_manylinux_module stubbed; tolerated "
    "differences: fat* formats, packaging's macOS 10.0-10.3 entries, packaging's extra musllinux_1_0",
]
EXHAUSTIVE_NOTE = "the platform grid of the quantifier is enumerated completely in both tiers"
MIN_EVENTS = {"compatible_tags": 300, "EnvSpec._evaluate_platform": 3000, "oracle-vs-packaging": 300}
SHARDS = {"quick": 4, "thorough": 8}
ARCHS = ["x86_64", "aarch64", "armv7l", "ppc64le", "ppc64", "s390x", "riscv64"]


def _nofat(tags):
    return [t for t in tags if "_fat" not in t]


def grid():
    for arch in ARCHS:
        for minor in range(5, 51):
            yield ("manylinux", 2, minor, arch, f"manylinux_2_{minor}_{arch}")
    for arch in ARCHS:
        for minor in range(1, 6):
            yield ("musllinux", 1, minor, arch, f"musllinux_1_{minor}_{arch}")
    for arch in ("x86_64", "arm64"):
        for minor in range(4, 17):
            yield ("macos", 10, minor, arch, f"macos_10_{minor}_{arch}")
        for major in range(11, 31):
            for minor in (0, 3):
                yield ("macos", major, minor, arch, f"macos_{major}_{minor}_{arch}")
    for arch, name in (("x86", "windows_x86"), ("x86_64", "windows_amd64"), ("aarch64", "windows_arm64")):
        yield ("windows", 0, 0, arch, name)


def expected(os_, major, minor, arch):
    if os_ == "manylinux":
        return po.manylinux(minor, arch), True
    if os_ == "musllinux":
        return sorted(po.musllinux(minor, arch)), False
    if os_ == "macos":
        return po.macos(major, minor, arch), True
    return po.windows(arch), True


def _pkg(os_, major, minor, arch):
    import packaging._manylinux as ml
    import packaging._musllinux as mu
    import packaging.tags as pt

    if os_ == "manylinux":
        with mock.patch.object(ml, "_get_glibc_version", lambda: ml._GLibCVersion(major, minor)), \
                mock.patch.object(ml, "_have_compatible_abi", lambda exe, a: True), \
                mock.patch.object(ml, "_get_manylinux_module", lambda: None):
            return list(ml.platform_tags([arch])) + [f"linux_{arch}"]
    if os_ == "musllinux":
        with mock.patch.object(mu, "_get_musl_version", lambda exe: mu._MuslVersion(major, minor)):
            return list(mu.platform_tags([arch])) + [f"linux_{arch}"]
    if os_ == "macos":
        return list(pt.mac_platforms((major, minor), arch))
    return None


def setup(ctx):
    import dep_logic.tags.tags as T

    def post_plat(args, kwargs, r):
        spec, tag = args[0], args[1]
        exp_list = ctx.extra_state.get("expected")
        if exp_list is None or spec.platform is None:
            return
        ordered = ctx.extra_state["ordered"]
        ctx.evaluations += 1
        full = exp_list + ["any"]
        if tag not in full:
            if "_fat" in tag:
                return
            if r is not None:
                violation(PROP, "EnvSpec._evaluate_platform", "a tag outside the standard set is accepted",
                          {"platform": str(spec.platform), "tag": tag, "score": r, "group": "extra-tag"})
            return
        if r is None:
            violation(PROP, "EnvSpec._evaluate_platform", "a tag the standards allow is rejected",
                      {"platform": str(spec.platform), "tag": tag, "group": "missing-tag"})
            return
        got_tags = [*spec.platform.compatible_tags, "any"]
        if r != len(got_tags) - got_tags.index(tag):
            violation(PROP, "EnvSpec._evaluate_platform", "score is not len(list)+1-index",
                      {"platform": str(spec.platform), "tag": tag, "score": r, "group": "score-formula"})
        if tag == "any" and r != 1:
            violation(PROP, "EnvSpec._evaluate_platform", "`any` is not the least preferred tag",
                      {"platform": str(spec.platform), "score": r, "group": "any-last"})
        if ordered and tag != "any":
            # relative order of claimed tags must follow the oracle list (fat* entries in between ignored)
            claimed = _nofat(spec.platform.compatible_tags)
            if claimed.index(tag) != exp_list.index(tag):
                violation(PROP, "EnvSpec._evaluate_platform", "preference rank differs from the standard order",
                          {"platform": str(spec.platform), "tag": tag, "rank": claimed.index(tag),
                           "expected_rank": exp_list.index(tag), "group": "rank"})

    ctx.extra_state = {}
    install(T.EnvSpec, "_evaluate_platform", post_plat)


def _point(ctx, os_, major, minor, arch, text, cross=True):
    from dep_logic.specifiers import parse_version_specifier
    from dep_logic.tags import EnvSpec, Platform

    try:
        p = Platform.parse(text)
        got = list(p.compatible_tags)
    except Exception as e:  # noqa: BLE001
        violation(PROP, "compatible_tags", f"raised {type(e).__name__}", {"platform": text, "error": str(e)[:120]})
        return
    bump("compatible_tags")
    exp, ordered = expected(os_, major, minor, arch)
    got_claimed = _nofat(got)
    ctx.evaluations += len(got) + 1
    if len(exp) > 1:
        ctx.nontrivial(text)
    if set(got_claimed) != set(exp):
        violation(PROP, "compatible_tags", "accepted tag set differs from the standards",
                  {"platform": text, "missing": sorted(set(exp) - set(got_claimed))[:8],
                   "extra": sorted(set(got_claimed) - set(exp))[:8], "group": f"set/{os_}/{arch}/{'10' if major == 10 else 'x'}"},
                  live={"os": os_, "major": major, "arch": arch})
    elif ordered and got_claimed != exp:
        i = next(i for i, (a, b) in enumerate(zip(got_claimed, exp)) if a != b)
        violation(PROP, "compatible_tags", "preference order differs from packaging.tags order",
                  {"platform": text, "position": i, "got": got_claimed[i:i + 3], "expected": exp[i:i + 3],
                   "group": f"order/{os_}/{arch}"})
    if len(set(got)) != len(got):
        violation(PROP, "compatible_tags", "duplicate tags", {"platform": text})
    # score monitor: every accepted tag, `any`, and near misses
    spec = EnvSpec(parse_version_specifier(">=3.8"), p, None)
    ctx.extra_state["expected"] = exp
    ctx.extra_state["ordered"] = ordered
    probes = list(exp) + ["any"]
    if os_ == "manylinux":
        probes += [f"manylinux_2_{minor + 1}_{arch}", f"manylinux_2_{minor}_{'x86_64' if arch != 'x86_64' else 'aarch64'}",
                   f"musllinux_1_1_{arch}", f"manylinux_2_{po.MANYLINUX_FLOOR[arch] - 1}_{arch}"]
    elif os_ == "musllinux":
        probes += [f"musllinux_1_{minor + 1}_{arch}", f"musllinux_1_0_{arch}", f"manylinux_2_17_{arch}"]
    elif os_ == "macos":
        nxt = (f"macosx_10_{minor + 1}" if major == 10 else f"macosx_{major + 1}_0")
        probes += [f"{nxt}_{arch}", f"{nxt}_universal2", f"macosx_10_3_{arch}", "macosx_10_9_ppc",
                   f"macosx_{major}_{minor}_{'arm64' if arch == 'x86_64' else 'x86_64'}"]
    else:
        probes += ["win32", "win_amd64", "win_arm64"]
    for tag in probes:
        try:
            spec.compatibility(["py3"], ["none"], [tag])
        except Exception as e:  # noqa: BLE001
            violation(PROP, "EnvSpec._evaluate_platform", f"raised {type(e).__name__}", {"platform": text, "tag": tag})
    ctx.extra_state["expected"] = None
    # the platform component of compatibility(): best score over the wheel's (compressed) platform tag set, in
    # whatever container the caller passes the tags (list, tuple, one-shot iterator, generator)
    full = [*got, "any"]

    def rank(tag):
        return len(full) - full.index(tag) if tag in full else None

    rnd = ctx.rnd
    tagsets = [[t] for t in rnd.sample(got, min(len(got), 3))] + [["any"], ["foreign_tag"]]
    for _ in range(3):
        ts = rnd.sample(got, min(len(got), rnd.randint(2, 3)))
        if rnd.random() < 0.4:
            ts.insert(rnd.randrange(len(ts) + 1), rnd.choice(["foreign_tag", "any"]))
        tagsets += [ts, list(reversed(ts))]
    for ts in tagsets:
        want = max([x for x in map(rank, ts) if x is not None], default=None)
        for how, mk in (("list", list), ("tuple", tuple), ("iterator", iter), ("generator", lambda x: (t for t in x))):
            bump("compatibility-platform-score")
            ctx.evaluations += 1
            try:
                r = spec.compatibility(["py3"], ["none"], mk(ts))
            except Exception as e:  # noqa: BLE001
                if how in ("iterator", "generator"):
                    ctx.shape("diagnostic: one-shot iterable of platform tags raised")
                    continue
                violation(PROP, "EnvSpec.compatibility", f"raised {type(e).__name__} with the platform tags passed as {how}",
                          {"platform": text, "tags": ts, "error": str(e)[:120], "group": "container-raise/" + how})
                continue
            got4 = None if r is None else r[3]
            if got4 != want and how in ("iterator", "generator"):
                # the parameter is annotated list[str]: a one-shot iterable is outside the contract, so a second pass
                # over it is a legitimate implementation choice - recorded, never a verdict
                ctx.shape("diagnostic: one-shot iterable of platform tags scored differently from the list")
                continue
            if got4 != want:
                violation(PROP, "EnvSpec.compatibility", "platform component of the score is not that of the best accepted tag",
                          {"platform": text, "tags": ts, "passed_as": how, "got": got4, "expected": want,
                           "group": "platform-score/" + how})
    # oracle vs packaging
    if cross:
        ref = _pkg(os_, major, minor, arch)
        if ref is not None:
            bump("oracle-vs-packaging")
            ref_c = [t for t in _nofat(ref) if not t.startswith(("macosx_10_0_", "macosx_10_1_", "macosx_10_2_", "macosx_10_3_"))
                     and not t.startswith("musllinux_1_0_")]
            same = (ref_c == exp) if ordered else (set(ref_c) == set(exp))
            if not same:
                ctx.inconclusive["oracle-disagrees-with-packaging"] += 1
                ctx.extra.setdefault("oracle_vs_packaging_diffs", [])
                if len(ctx.extra["oracle_vs_packaging_diffs"]) < 5:
                    ctx.extra["oracle_vs_packaging_diffs"].append(
                        {"platform": text, "only_packaging": sorted(set(ref_c) - set(exp))[:6],
                         "only_oracle": sorted(set(exp) - set(ref_c))[:6]})
    if len(ctx.samples) < 5 and minor in (9, 17, 2) and len(exp) > 1:
        ctx.sample({"platform": text, "first_tags": got[:5], "n_tags": len(got)})


def _consumer_mutation(ctx, retained):
    """A caller edits the lists the public helpers hand out (they are annotated as plain lists): the tag lists of
    platforms built afterwards must not change."""
    from dep_logic.tags import Platform
    from dep_logic.tags.platform import Arch

    rnd = ctx.rnd
    first = {text: tags for text, _p, tags in retained}
    edited = 0
    for arch in Arch:
        for name in ("get_mac_binary_formats",):
            fn = getattr(arch, name, None)
            if fn is None:
                continue
            try:
                lst = fn()
            except Exception:  # noqa: BLE001
                continue
            if isinstance(lst, list):
                lst.sort(reverse=True)
                lst.append("edited-by-caller")
                if rnd.random() < 0.5:
                    del lst[:1]
                edited += 1
    try:
        ch = Platform.choices()
        if isinstance(ch, list):
            ch.reverse()
            ch.append("edited-by-caller")
            edited += 1
    except Exception:  # noqa: BLE001
        pass
    # a tag list handed out by one platform object is edited; OTHER objects (also for the same name) stay as they were
    sample = rnd.sample(retained, min(len(retained), 40))
    for text, p, _tags in sample:
        try:
            lst = Platform.parse(text).compatible_tags
            if isinstance(lst, list):
                lst.reverse()
                lst.append("edited-by-caller")
                edited += 1
        except Exception:  # noqa: BLE001
            pass
    ctx.shape("consumer-mutation", edited)
    for text, want in first.items():
        bump("after-consumer-mutation")
        try:
            now = list(Platform.parse(text).compatible_tags)
        except Exception as e:  # noqa: BLE001
            violation(PROP, "compatible_tags", f"raised {type(e).__name__} after a caller edited lists it had been handed",
                      {"platform": text, "group": "consumer-mutation"}, case={"kind": "consumer-mutation"})
            continue
        if now != want:
            violation(PROP, "compatible_tags", "the tag list of a freshly parsed platform changed after a caller edited lists "
                      "handed out by public helpers (get_mac_binary_formats / choices / another object's compatible_tags)",
                      {"platform": text, "added": [t for t in now if t not in want][:6], "removed": [t for t in want if t not in now][:6],
                       "order_changed": sorted(now) == sorted(want), "group": "consumer-mutation"}, case={"kind": "consumer-mutation"})


def run(ctx):
    from dep_logic.tags import Platform

    retained = []
    pts = list(grid())
    # every shard is a fresh interpreter and walks the (whole) grid in a different order: which platform is evaluated
    # FIRST in a process must not matter (process-wide tables initialised by the first caller)
    k = (ctx.shard * 3 + ctx.seed) % len(ARCHS)
    arch_rank = {a: i for i, a in enumerate(ARCHS[k:] + ARCHS[:k])}
    fam_order = [["manylinux", "musllinux", "macos", "windows"], ["macos", "manylinux", "windows", "musllinux"],
                 ["musllinux", "windows", "manylinux", "macos"], ["windows", "macos", "musllinux", "manylinux"]][ctx.shard % 4]
    descending = ctx.shard % 2 == 1
    pts.sort(key=lambda p: (fam_order.index(p[0]), arch_rank.get(p[3], 99), -p[1] if descending else p[1],
                            -p[2] if descending else p[2]))
    ctx.extra["first_platform_evaluated"] = [pts[0][4]]
    for os_, major, minor, arch, text in pts:
        ctx.cases += 1
        ctx.current_case = {"kind": "platform", "point": [os_, major, minor, arch, text]}
        ctx.guarded(20.0, _point, ctx, os_, major, minor, arch, text)
        try:
            p = Platform.parse(text)
            retained.append((text, p, list(p.compatible_tags)))
        except Exception:  # noqa: BLE001
            pass
    # second pass in reverse order (state shared between platform objects must not depend on the order of first use)
    for os_, major, minor, arch, text in reversed(pts):
        ctx.cases += 1
        ctx.current_case = {"kind": "platform", "point": [os_, major, minor, arch, text]}
        ctx.guarded(20.0, _point, ctx, os_, major, minor, arch, text, False)
    # objects kept from the first pass: their tag lists must be what they were (no aliasing with later objects)
    for text, p, first in retained:
        bump("retained-platform")
        now = list(p.compatible_tags)
        if now != first:
            violation(PROP, "compatible_tags", "the tag list of a platform object changed after other platforms were evaluated",
                      {"platform": text, "added": [t for t in now if t not in first][:6], "removed": [t for t in first if t not in now][:6],
                       "group": "aliasing"}, case={"kind": "platform", "point": [None, 0, 0, "", text]})
    _consumer_mutation(ctx, retained)
    ctx.current_case = None
    ctx.extra["exhaustive"] = True


def replay(ctx, case):
    if case.get("kind") == "consumer-mutation":   # sequence-dependent: the shard's workload is repeated as a whole
        run(ctx)
        return
    _point(ctx, *case["point"], cross=False)
