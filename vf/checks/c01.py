"""C01 - & | ~ on version specifiers are exact set operations.

Deciding monitors: post-conditions on the ten operator methods (incl. reflected aliases and the
special classes) comparing critical-point membership vectors (exact for the observed call), plus an
end-to-end oracle at every inner node of the generated expression trees.
"""
from __future__ import annotations

from .. import specmon
from ..models import intervals as iv
from ..workloads import specs as W
from ._spec_common import eval_tree, run_trees, small_scope_triples, spec_laws

PROP = "C01"
ANCHORS = ['dep_logic.specifiers.range:RangeSpecifier.__and__', 'dep_logic.specifiers.range:RangeSpecifier.__or__', 'dep_logic.specifiers.range:RangeSpecifier.__invert__', 'dep_logic.specifiers.range:RangeSpecifier.is_superset', 'dep_logic.specifiers.range:RangeSpecifier.allows_lower', 'dep_logic.specifiers.range:RangeSpecifier.allows_higher', 'dep_logic.specifiers.range:RangeSpecifier.is_strictly_lower', 'dep_logic.specifiers.range:RangeSpecifier.is_adjacent_to', 'dep_logic.specifiers.range:RangeSpecifier.can_combine', 'dep_logic.specifiers.union:UnionSpecifier.__and__', 'dep_logic.specifiers.union:UnionSpecifier.__or__', 'dep_logic.specifiers.union:UnionSpecifier.__invert__', 'dep_logic.specifiers.union:UnionSpecifier._from_ranges', 'dep_logic.specifiers.special:EmptySpecifier.__and__', 'dep_logic.specifiers.special:EmptySpecifier.__or__', 'dep_logic.specifiers.special:AnySpecifier.__and__', 'dep_logic.specifiers.special:AnySpecifier.__or__']
RULE = ("Seeded expression trees (depth<=4, leaves = specifier texts through parse_version_specifier / "
        "from_specifierset, hostile shapes: equal bounds with different inclusivity, touching ranges, unions of up "
        "to 8 ranges, both spellings of the universal set; earlier trees reused as operands). Every call of an "
        "operator method (also the inner ones issued by the library itself) is one monitored event; a case is "
        "non-trivial and distinct by (op, structure of a, structure of b) when neither operand is empty/universal."
        " Large trees: unions of 20-120 ranges built by long/balanced folds, and big unions meeting small operands at their joints.")
ASSUMPTIONS = [
    "specifier objects are read structurally (min/max/include_*/ranges); packaging.version.Version supplies the total order",
    "critical-point probes (bounds, public successors, +local neighbours, 0.dev0) are exact for the observed call",
    "=== and +local bounds are outside the statement and are not generated",
]
MIN_EVENTS = {"RangeSpecifier.__and__": 50, "RangeSpecifier.__or__": 50, "RangeSpecifier.__invert__": 10,
              "UnionSpecifier.__and__": 20, "UnionSpecifier.__or__": 20, "UnionSpecifier.__invert__": 5,
              "EmptySpecifier.__and__": 1, "EmptySpecifier.__or__": 1, "AnySpecifier.__and__": 1,
              "AnySpecifier.__or__": 1, "tree-node": 100}
MIN_SHAPES = {"and:range-overlap": 5, "or:range-adjacent": 2, "or:range-disjoint": 5, "and:unionxunion": 2,
              "or:unionxrange": 2, "or:range-touching-exclusive": 1}


def setup(ctx):
    specmon.install_c01(ctx, PROP)
    _extra_key_monitor(ctx)


def _extra_key_monitor(ctx):
    """distinct_nontrivial: count (op, a, b) with neither operand trivial, at the operator calls."""
    import dep_logic.specifiers as S
    from ..monitor import install

    def key(opname):
        def post(args, kwargs, r):
            a, b = args[0], args[1]
            if iv.readable(a) and iv.readable(b) and not any(
                    isinstance(x, (S.EmptySpecifier, S.AnySpecifier)) or (isinstance(x, S.RangeSpecifier) and x.is_any())
                    for x in (a, b)):
                ctx.nontrivial(opname, iv.describe(a), iv.describe(b))
                if len(ctx.samples) < 6 and isinstance(r, S.UnionSpecifier):
                    ctx.sample({"op": opname, "a": iv.describe(a), "b": iv.describe(b), "result": iv.describe(r)})
        return post

    for cls in (S.RangeSpecifier, S.UnionSpecifier):
        install(cls, "__and__", key("and"), mon=f"key.{cls.__name__}.and",
                aliases=("__rand__",) if cls is S.UnionSpecifier else ())
        install(cls, "__or__", key("or"), mon=f"key.{cls.__name__}.or",
                aliases=("__ror__",) if cls is S.UnionSpecifier else ())


def _case(ctx):
    def per_case(tree, pool):
        eval_tree(ctx, tree, lambda t, v, kids: specmon.node_check_c01(ctx, t, v, kids, PROP), prop=PROP)
    return per_case


def _laws_under_monitors(ctx):
    """Evaluate both sides of every law on shared leaf objects: each operator call is decided by the
    installed post-conditions (the laws themselves are C14's subject)."""
    from ..monitor import CaseTimeout, violation

    def per_triple(objs, texts):
        a, b, c = objs
        for name, lf, rf in spec_laws(a, b, c):
            for side in (lf, rf):
                if side is None:
                    continue
                try:
                    side()
                except CaseTimeout:
                    raise
                except Exception as e:  # noqa: BLE001
                    violation(PROP, "small-scope", f"operator raised {type(e).__name__} while evaluating law {name}",
                              {"a": texts[0], "b": texts[1], "c": texts[2], "error": str(e)[:160], "group": "raise"})
    return per_triple


def run(ctx):
    if ctx.shard == 0:  # the repository's own pinned examples as one more workload (outcomes ignored)
        from ..repotests import run_repo_tests

        run_repo_tests(ctx, ("specifier", "marker", "tags"))
    run_trees(ctx, _case(ctx))
    small_scope_triples(ctx, _laws_under_monitors(ctx))


def replay(ctx, case):
    if isinstance(case, dict) and case.get("kind") == "repo-test":
        from ..repotests import run_repo_tests

        run_repo_tests(ctx, nodeid=case["nodeid"])
        return
    if case.get("kind") == "small-triple":
        small_scope_triples(ctx, _laws_under_monitors(ctx))
        return
    _case(ctx)(case["tree"], None)
