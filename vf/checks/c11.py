"""C11 - marker <-> specifier bridge preserves meaning for Python-version atoms.

Deciding monitors: post-condition on every MarkerExpression._get_specifier call on a
python_version / python_full_version atom (the specifier view admits exactly the values on which the
atom evaluates true, over an interpreter grid closed under the atom's own bounds) and on every
MarkerExpression.from_specifier call (None, or an atom that evaluates true exactly on the versions
the specifier admits); also on _normalize_python_version_specifier (python_version atom ->
interval of python_full_version).  The monitors fire on the calls of the exhaustive stratum and
on every call the merge machinery makes during a marker workload.
"""
from __future__ import annotations

import itertools

from packaging.version import Version

from .. import markermon as MM
from ..models import intervals as iv
from ..monitor import CaseTimeout, bump, install, violation
from ..workloads import markers as MW

PROP = "C11"
ANCHORS = ['dep_logic.markers.single:MarkerExpression._get_specifier', 'dep_logic.markers.single:MarkerExpression.from_specifier', 'dep_logic.markers.single:_normalize_python_version_specifier', 'dep_logic.markers.single:_merge_python_version_single_markers']
RULE = ("Exhaustive stratum: variable {python_version, python_full_version} x operator {==, !=, <, <=, >, >=, ~=, "
        "==X.*, !=X.*} x operand shapes (X, X.Y, X.Y.Z incl. trailing .0) x both operand orders, python_version "
        "in/not in lists; every simple specifier (single comparison, ~=, ==X.*, !=V, !=X.*, pairs rendering as ~= or "
        "==) as from_specifier input for both names; decided on the interpreter grid X in {2,3,4}, Y in 0..13, Z in "
        "{0,1,2,5,9,10,18} plus the bounds' neighbours. Then the same monitors on all bridge calls issued while "
        "seeded marker pairs are combined. Non-trivial/distinct: (variable, operator, operand shape, direction)."
        " History: the separately parsed orientation twin of each atom is evaluated first at the monitor's own values.")
ASSUMPTIONS = [
    "`value in specifier` is the library's own membership (tied to PEP 440 by C04); interpreters are final releases X.Y.Z",
    "python_version of an interpreter X.Y.Z is 'X.Y'",
]
MIN_EVENTS = {"MarkerExpression._get_specifier": 300, "MarkerExpression.from_specifier": 300,
              "_normalize_python_version_specifier": 100}
MIN_SHAPES = {"from_specifier:none": 5, "from_specifier:atom": 100, "get_specifier:python_version": 100,
              "get_specifier:python_full_version": 100, "get_specifier:in-list": 5}
SHARDS = {"quick": 6, "thorough": 16}

GRID = [(X, Y, Z) for X in (2, 3, 4) for Y in range(0, 14) for Z in (0, 1, 2, 5, 9, 10, 18)]


def grid_for(values):
    pts = set(GRID)
    for f in MW.critical_fulls(values):
        a, b, c = (int(x) for x in f.split("."))
        pts.add((a, b, c))
    return sorted(pts)


def setup(ctx):
    MM.prepare(ctx)
    M, single = MM.classes()
    E = single.MarkerExpression

    def post_get(args, kwargs, r):
        atom = args[0]
        if atom.name not in ("python_version", "python_full_version"):
            return
        if atom.reversed and atom.op in ("in", "not in"):
            return  # `"3.8" in python_version`: not a well-defined atom class of the quantifier
        ctx.shape("get_specifier:" + ("in-list" if atom.op in ("in", "not in") else atom.name))
        shape = ("list" if atom.op in ("in", "not in") else f"{len(atom.value.replace('.*', '').split('.'))}seg" +
                 ("*" if "*" in atom.value else ""))
        ctx.nontrivial(atom.name, atom.op, shape, atom.reversed)
        seen = set()
        env = {}   # ONE environment object, updated in place from interpreter to interpreter (a resolver's loop)
        for X, Y, Z in grid_for([atom.value]):
            if atom.name == "python_version":
                if (X, Y) in seen:
                    continue
                seen.add((X, Y))
                val = f"{X}.{Y}"
                env.update({"python_version": val, "python_full_version": f"{X}.{Y}.{Z}"})
            else:
                val = f"{X}.{Y}.{Z}"
                env.update({"python_version": f"{X}.{Y}", "python_full_version": val})
            try:
                exp = bool(atom.evaluate(env))   # the caller's own dict, not a copy
            except CaseTimeout:
                raise
            except Exception:  # noqa: BLE001
                ctx.inconclusive["atom-evaluation-raised"] += 1
                return
            try:
                got = val in r
                # the view is asked in every form its signature documents: text, a parsed Version, contains()
                if atom.op not in ("in", "not in") and hasattr(r, "contains"):
                    from packaging.version import Version as _V

                    forms = {"text": bool(got), "Version": bool(_V(val) in r), "contains(Version)": bool(r.contains(_V(val))),
                             "contains(text)": bool(r.contains(val))}
                    if len(set(forms.values())) > 1:
                        violation(PROP, "MarkerExpression._get_specifier", "the specifier view answers differently for the same "
                                  "value given as text / Version / through contains()",
                                  {"atom": str(atom), "specifier": str(r), "value": val, "answers": forms, "group": "value-form"})
                        return
            except Exception as e:  # noqa: BLE001
                violation(PROP, "MarkerExpression._get_specifier", f"membership in the specifier view raised {type(e).__name__}",
                          {"atom": str(atom), "specifier": repr(r), "value": val})
                return
            ctx.evaluations += 1
            if bool(got) != exp:
                violation(PROP, "MarkerExpression._get_specifier",
                          "specifier view and evaluate() disagree on a value",
                          {"atom": str(atom), "specifier": str(r), "value": val, "in_specifier": bool(got), "evaluates": exp,
                           "group": f"{atom.name}/{atom.op}"},
                          live={"operands": [atom], "result": atom, "env": env, "atom": atom})
                return

    def post_from(args, kwargs, r):
        name, spec = args[1], args[2]
        if name not in ("python_version", "python_full_version"):
            return
        if r is None:
            ctx.shape("from_specifier:none")
            return
        ctx.shape("from_specifier:atom" if isinstance(r, E) else "from_specifier:" + type(r).__name__)
        vals = [str(b) for b in iv.bounds(spec)] if iv.readable(spec) else []
        seen = set()
        env = {}   # one environment object updated in place
        for X, Y, Z in grid_for(vals):
            if name == "python_version":
                if (X, Y) in seen:
                    continue
                seen.add((X, Y))
                val = f"{X}.{Y}"
            else:
                val = f"{X}.{Y}.{Z}"
            env.update({"python_version": f"{X}.{Y}", "python_full_version": f"{X}.{Y}.{Z}"})
            try:
                exp = val in spec
                if iv.readable(spec) and hasattr(spec, "contains"):
                    from packaging.version import Version as _V

                    if bool(_V(val) in spec) != bool(exp) or bool(spec.contains(_V(val))) != bool(exp):
                        violation(PROP, "MarkerExpression.from_specifier", "the input specifier answers differently for the "
                                  "same value given as text and as Version",
                                  {"specifier": str(spec), "value": val, "as_text": bool(exp), "group": "value-form"})
                        return
            except Exception:  # noqa: BLE001
                return
            try:
                got = bool(r.evaluate(env))   # the caller's own dict, not a copy
            except CaseTimeout:
                raise
            except Exception as e:  # noqa: BLE001
                violation(PROP, "MarkerExpression.from_specifier", f"the returned atom cannot be evaluated ({type(e).__name__})",
                          {"name": name, "specifier": str(spec), "atom": MM.mtext(r), "value": val, "error": str(e)[:120],
                           "group": "raise"})
                return
            ctx.evaluations += 1
            if got != bool(exp):
                violation(PROP, "MarkerExpression.from_specifier", "atom built from a specifier evaluates differently from it",
                          {"name": name, "specifier": str(spec), "structure": iv.describe(spec) if iv.readable(spec) else "",
                           "atom": MM.mtext(r), "value": val, "evaluates": got, "in_specifier": bool(exp),
                           "group": f"{name}"})
                return

    def post_norm(args, kwargs, r):
        atom = args[0]
        if not iv.readable(r) or (atom.reversed and atom.op in ("in", "not in")):
            return
        if atom.op not in ("in", "not in") and len(atom.value.replace(".*", "").split(".")) > 2:
            ctx.shape("normalize:3-component python_version value (outside the quantifier: values X or X.Y)")
            return
        for X, Y, Z in grid_for([atom.value]):
            env = {"python_version": f"{X}.{Y}", "python_full_version": f"{X}.{Y}.{Z}"}
            try:
                exp = MM.ev(atom, env)
            except Exception:  # noqa: BLE001
                return
            ctx.evaluations += 1
            if iv.mem(r, Version(f"{X}.{Y}.{Z}")) != exp:
                violation(PROP, "_normalize_python_version_specifier",
                          "python_full_version interval of a python_version atom admits a wrong interpreter",
                          {"atom": str(atom), "interval": iv.describe(r), "interpreter": f"{X}.{Y}.{Z}", "atom_evaluates": exp,
                           "in_specifier": not exp, "group": atom.op}, live={"atom": atom, "env": env})
                return

    # the view actually *exposed* by an atom (the `specifier` property): also covers views attached from outside
    # (from_specifier / dataclasses.replace) that never go through _get_specifier
    seen_views = set()
    orig_prop = E.__dict__["specifier"]

    def spec_getter(self):
        r = orig_prop.fget(self)
        from ..monitor import STATE

        if not STATE.depth and self.name in ("python_version", "python_full_version") and id(self) not in seen_views:
            seen_views.add(id(self))
            if len(seen_views) > 200000:
                seen_views.clear()
            STATE.depth += 1
            try:
                STATE.counts["MarkerExpression.specifier"] += 1
                post_get((self,), {}, r)
            except Exception:  # noqa: BLE001
                STATE.errors["MarkerExpression.specifier"] += 1
            finally:
                STATE.depth -= 1
        return r

    from ..monitor import STATE as _ST

    _ST.installed.append((E, "specifier", orig_prop))
    E.specifier = property(spec_getter)
    _ST.counts.setdefault("MarkerExpression.specifier", 0)
    install(E, "_get_specifier", post_get)
    install(E, "from_specifier", post_from)
    install(single, "_normalize_python_version_specifier", post_norm)


def _atoms():
    out = []
    for var, vals in (("python_version", ["3", "3.0", "3.8", "3.10", "2.7", "4"]),
                      ("python_full_version", ["3.8", "3.8.0", "3.8.1", "3.10.0", "3.10", "2.7.18", "3.0"])):
        for v in vals:
            for op in ("==", "!=", "<", "<=", ">", ">="):
                out.append(f'{var} {op} "{v}"')
                out.append(f'"{v}" {op} {var}')
            if "." in v:
                out.append(f'{var} ~= "{v}"')
            out.append(f'{var} == "{v}.*"')
            out.append(f'{var} != "{v}.*"')
    for lst in ("3.8", "3.8, 3.9", "3.8,3.9,3.10", "2.7, 3.12"):
        out.append(f'python_version in "{lst}"')
        out.append(f'python_version not in "{lst}"')
    return out


def _specs():
    out = []
    for v in ("3", "3.8", "3.8.0", "3.8.1", "3.10", "2.7", "3.0", "3.9", "3.9.1"):
        for op in ("==", "!=", "<", "<=", ">", ">="):
            out.append(f"{op}{v}")
        if "." in v:
            out.append(f"~={v}")
        out.append(f"=={v}.*")
        out.append(f"!={v}.*")
    out += [">=3.8,<4.0", ">=3.8,<3.9", ">=3.8.0,<3.9.0", ">=3.8.1,<3.9", ">=3.8,<=3.8", "<3.8||>=3.9", "<3.8||>3.8", ">=3.8,<3.10",
            "", "<empty>", ">=3.8.2,<3.9.0", ">=3,<4"]
    return out


def _twin_prelude(ctx, text):
    """History: the atom with its operands exchanged (a separately parsed object that compares equal to the atom
    under test for the library) is evaluated first at the very values the monitor is going to use.  Outcomes are
    ignored here (C03 decides them); what matters is that nothing it leaves behind changes the atom under test."""
    import re

    from dep_logic.markers import parse_marker

    m = re.fullmatch(r'(\w+) (==|!=|<=|>=|<|>|~=) "([^"]+)"', text)
    m2 = re.fullmatch(r'"([^"]+)" (==|!=|<=|>=|<|>|~=) (\w+)', text)
    if m:
        twin = f'"{m.group(3)}" {m.group(2)} {m.group(1)}'
        name, value = m.group(1), m.group(3)
    elif m2:
        twin = f'{m2.group(3)} {m2.group(2)} "{m2.group(1)}"'
        name, value = m2.group(3), m2.group(1)
    else:
        return
    with MM.oracle():
        try:
            tw = parse_marker(twin)
        except Exception:  # noqa: BLE001
            return
        seen = set()
        for X, Y, Z in grid_for([value]):
            env = {"python_version": f"{X}.{Y}", "python_full_version": f"{X}.{Y}.{Z}"}
            key = env[name]
            if key in seen:
                continue
            seen.add(key)
            try:
                MM.ev(tw, env)
            except CaseTimeout:
                raise
            except Exception:  # noqa: BLE001
                pass
    bump("orientation-twin-prelude")
    ctx.shape("history:orientation twin evaluated first")


def run(ctx):
    if ctx.shard == 0:  # the repository's own pinned examples as one more workload (outcomes ignored)
        from ..repotests import run_repo_tests

        run_repo_tests(ctx, ("marker",))
    from dep_logic.markers import parse_marker
    from dep_logic.markers.single import MarkerExpression
    from dep_logic.specifiers import parse_version_specifier

    ctx.stratum = "pyin"  # the exhaustive stratum contains in/not in lists (F5's mechanism predicate applies)
    if ctx.shard == 0:
        for t in _atoms():
            ctx.cases += 1
            ctx.current_case = {"kind": "atom", "text": t}
            m = parse_marker(t)
            _twin_prelude(ctx, t)
            try:
                m._specifier = None
                m.specifier
            except Exception as e:  # noqa: BLE001
                violation(PROP, "MarkerExpression._get_specifier", f"raised {type(e).__name__}", {"atom": t, "error": str(e)[:120]})
        for s in _specs():
            for name in ("python_version", "python_full_version"):
                ctx.cases += 1
                ctx.current_case = {"kind": "spec", "text": s, "name": name}
                try:
                    MarkerExpression.from_specifier(name, parse_version_specifier(s))
                except Exception as e:  # noqa: BLE001
                    violation(PROP, "MarkerExpression.from_specifier", f"raised {type(e).__name__}",
                              {"specifier": s, "name": name, "error": str(e)[:120]})
        # results of the algebra as from_specifier input
        sp = [parse_version_specifier(s) for s in _specs()]
    else:
        sp = [parse_version_specifier(s) for s in _specs()]
    if True:
        pairs = list(itertools.product(sp, repeat=2))
        frac = 0.08 if ctx.tier == "quick" else 1.0
        for idx, (a, b) in enumerate(pairs):
            if idx % ctx.nshards != ctx.shard:
                continue
            # "gap" pairs (an upper-bounded and a lower-bounded range: their union is the two-range shape the
            # `!=X.*` / `!=V` shortcuts look at) are always taken, the rest is sampled in the quick tier
            gap = str(a).startswith("<") and str(b).startswith(">") and "," not in str(a) + str(b)
            if not gap and ctx.rnd.random() > frac:
                continue
            if gap:
                ctx.shape("spec-pair:gap")
            for r in (a & b, a | b):
                for name in ("python_version", "python_full_version"):
                    ctx.cases += 1
                    ctx.current_case = {"kind": "spec2", "a": str(a), "b": str(b), "name": name}
                    try:
                        MarkerExpression.from_specifier(name, r)
                    except Exception as e:  # noqa: BLE001
                        violation(PROP, "MarkerExpression.from_specifier", f"raised {type(e).__name__}",
                                  {"specifier": str(r), "name": name, "error": str(e)[:120], "group": "raise"})
        if len(ctx.samples) < 3:
            ctx.sample({"atom": 'python_version ~= "3.8"', "specifier_view": str(parse_marker('python_version ~= "3.8"').specifier)})
            ctx.sample({"from_specifier": ["python_full_version", ">=3.8,<4.0"],
                        "atom": str(MarkerExpression.from_specifier("python_full_version", parse_version_specifier(">=3.8,<4.0")))})
    # every (python_version atom, python_full_version atom) pair incl. literal-on-the-left spellings, merged with
    # and / or; afterwards the specifier view of every atom of the result is read (the view a caller would get)
    ctx.stratum = "main"
    MM.clear_caches()
    pv_atoms = [f'python_version {op} "{v}"' for v in ("3.8", "3.10", "3") for op in ("==", "!=", "<", "<=", ">", ">=")]
    pfv_atoms = []
    for v in ("3.8.0", "3.8", "3.10.0", "3.8.1"):
        for op in ("==", "!=", "<", "<=", ">", ">="):
            pfv_atoms.append(f'python_full_version {op} "{v}"')
            pfv_atoms.append(f'"{v}" {op} python_full_version')
    pairs = list(itertools.product(pv_atoms, pfv_atoms))
    for idx, (x, y) in enumerate(pairs):
        if idx % ctx.nshards != ctx.shard:
            continue
        for op in ("and", "or"):
            for tree in ([op, ["m", x], ["m", y]], [op, ["m", y], ["m", x]]):
                MM.clear_caches()  # each pair is the *first* merge of its kind (the merge cache ignores operand order)
                ctx.cases += 1
                ctx.current_case = {"kind": "mtree", "tree": tree}
                got = []
                MM.eval_marker_tree(ctx, tree, lambda t, v, kids: got.append(v), prop=PROP, watchdog=5.0)
                for v in got[-1:]:
                    for atom in MW.walk_atoms(v):
                        try:
                            atom.specifier  # monitored property access
                        except Exception:  # noqa: BLE001
                            pass
    # bridge calls issued by the merge machinery
    ctx.stratum = "pyin"
    MM.clear_caches()
    rnd = ctx.rnd
    cfg = MW.Cfg(extras=False, release=False, strin=False, pyin=True, reversed_ok=True)
    t0 = ctx.elapsed()
    for i in range(600 if ctx.tier == "quick" else 10000):
        if ctx.elapsed() - t0 > (10 if ctx.tier == "quick" else 120):
            break
        tree = MM.gen_marker_tree(rnd, cfg, 6)
        ctx.cases += 1
        ctx.current_case = {"kind": "mtree", "tree": tree}
        got = []
        MM.eval_marker_tree(ctx, tree, lambda t, v, kids: got.append(v), prop=PROP, watchdog=5.0)
        for v in got[-1:]:
            for atom in MW.walk_atoms(v):
                if getattr(atom, "name", "") in ("python_version", "python_full_version"):
                    try:
                        atom.specifier
                    except Exception:  # noqa: BLE001
                        pass
    ctx.current_case = None


def replay(ctx, case):
    if isinstance(case, dict) and case.get("kind") == "repo-test":
        from ..repotests import run_repo_tests

        run_repo_tests(ctx, nodeid=case["nodeid"])
        return
    from dep_logic.markers import parse_marker
    from dep_logic.markers.single import MarkerExpression
    from dep_logic.specifiers import parse_version_specifier

    MM.clear_caches()
    k = case["kind"]
    if k == "atom":
        ctx.stratum = "pyin"
        m = parse_marker(case["text"])
        _twin_prelude(ctx, case["text"])
        m._specifier = None
        m.specifier
    elif k == "spec":
        MarkerExpression.from_specifier(case["name"], parse_version_specifier(case["text"]))
    elif k == "spec2":
        a, b = parse_version_specifier(case["a"]), parse_version_specifier(case["b"])
        for r in (a & b, a | b):
            MarkerExpression.from_specifier(case["name"], r)
    else:
        ctx.stratum = "pyin"
        got = []
        MM.eval_marker_tree(ctx, case["tree"], lambda t, v, kids: got.append(v), prop=PROP, watchdog=60.0)
        for v in got[-1:]:
            for atom in MW.walk_atoms(v):
                try:
                    atom.specifier
                except Exception:  # noqa: BLE001
                    pass
