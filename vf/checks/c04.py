"""C04 - specifier membership agrees with PEP 440 (packaging) through the whole algebra.

Deciding monitors: (1) at every tree node, `v in value` and value.contains(v) for final releases v
against the same Boolean combination of packaging's SpecifierSet(leaf).contains(v) over the leaves
(packaging is asked about the *leaves* only, never about dep-logic's rendering); (2) inner
post-conditions on every contains()/__contains__ call of the interval classes, wherever it comes
from: for a final release the answer must equal structural membership; (3) === stratum: same
equation or ValueError, never a wrong set.
"""
from __future__ import annotations

import functools

from packaging.specifiers import SpecifierSet
from packaging.version import InvalidVersion, Version

from ..models import intervals as iv
from ..monitor import bump, install, oracle, violation
from ..workloads import specs as W
from ._spec_common import eval_tree, run_trees

PROP = "C04"
ANCHORS = ['dep_logic.specifiers.range:RangeSpecifier.contains', 'dep_logic.specifiers.union:UnionSpecifier.contains', 'dep_logic.specifiers.special:EmptySpecifier.__contains__', 'dep_logic.specifiers.special:AnySpecifier.__contains__', 'dep_logic.specifiers.arbitrary:ArbitrarySpecifier.__and__', 'dep_logic.specifiers.arbitrary:ArbitrarySpecifier.__or__', 'dep_logic.specifiers.arbitrary:ArbitrarySpecifier.contains', 'dep_logic.specifiers:_from_pkg_specifier']
RULE = ("Expression trees over leaves with every operator (>, >=, <, <=, ==, !=, ~=, ==X.*, !=X.*; comma sets; "
        "pre/post/dev/epoch bounds; non-normalised spellings); candidates = all final releases N(.N){0,3} derived "
        "from the bounds of the case (release, release with last segment +-1, padded/truncated, next minor/major) "
        "plus a fixed grid. One evaluation = one (node, candidate) membership decision. Non-trivial/distinct: "
        "(tree text, candidate) where the node value is neither empty nor universal. A separate stratum mixes "
        "=== leaves (targets 1.0, 1.0.0, abc and pool versions) into the trees."
        " Large trees (unions up to ~50 ranges): every literal bound is a candidate, derived neighbours are sampled, upper nodes are probed.")
ASSUMPTIONS = [
    "reference = the packaging release installed next to the library, asked with prereleases=True about leaves only",
    "only final releases are candidates (PEP 440 exclusion rules for pre/post/dev are outside the claim)",
]
MIN_EVENTS = {"node-membership": 2000, "RangeSpecifier.contains": 500, "UnionSpecifier.contains": 100,
              "EmptySpecifier.__contains__": 5, "AnySpecifier.__contains__": 5, "arbitrary-node": 20}
MIN_SHAPES = {"arbitrary:raised-ValueError": 1, "arbitrary:returned": 5}


def is_final(v: Version) -> bool:
    return v.pre is None and v.post is None and v.dev is None and v.local is None


def setup(ctx):
    import dep_logic.specifiers as S

    def post_contains(args, kwargs, r):
        s, v = args[0], args[1]
        try:
            ver = v if isinstance(v, Version) else Version(str(v))
        except InvalidVersion:
            return
        if not is_final(ver):
            return
        exp = iv.mem(s, ver)
        ctx.evaluations += 1
        if bool(r) != exp:
            violation(PROP, f"{type(s).__name__}.contains", "membership of a final release differs from the bounds",
                      {"spec": iv.describe(s), "text": _s(s), "version": str(v), "got": bool(r), "expected": exp},
                      live={"value": s})

    install(S.RangeSpecifier, "contains", post_contains)
    install(S.UnionSpecifier, "contains", post_contains)
    install(S.EmptySpecifier, "__contains__", post_contains)
    install(S.AnySpecifier, "__contains__", post_contains)


def _s(x):
    try:
        return str(x)
    except Exception as e:  # noqa: BLE001
        return f"<str raised {type(e).__name__}>"


GRID = [Version(s) for s in ["0", "0.1", "0.9", "1", "1.0.1", "1.1", "1.9", "1.10", "2", "2.0.1", "2.1", "9", "9.10",
                             "10", "10.0.1", "11", "1!0", "1!1.0", "1!2.1", "2!0", "2!10", "3!1"]]


def candidates(tree) -> list[Version]:
    out = set(GRID)
    for leaf in W.tree_leaves(tree):
        for part in leaf.replace("||", ",").split(","):
            p = part.strip().lstrip("<>=!~ ").rstrip("*").rstrip(".")
            if not p or p == "<empty>":
                continue
            try:
                v = Version(p)
            except InvalidVersion:
                continue
            rel = list(v.release)
            ep = f"{v.epoch}!"
            variants = [rel, rel + [0], rel + [1], rel[:-1] or rel, rel[:-1] + [rel[-1] + 1], rel[:-1] + [max(0, rel[-1] - 1)]]
            if len(rel) > 1:
                variants.append(rel[:-2] + [rel[-2] + 1])
                variants.append(rel[:-2] + [rel[-2] + 1, 0])
                variants.append(rel[:-2] + [max(0, rel[-2] - 1), 99])
            variants.append([rel[0] + 1])
            for r in variants:
                out.add(Version(ep + ".".join(map(str, r))))
    return sorted(out)


@functools.lru_cache(maxsize=4096)
def _pkg_set(text: str) -> SpecifierSet:
    return SpecifierSet(text)


def _leaf_ref(text: str, v: Version):
    """packaging's answer for a leaf text (incl. dep-logic's || and <empty> syntax on top)."""
    if text == "<empty>":
        return False
    if "||" in text:
        return any(_leaf_ref(p, v) for p in text.split("||"))
    return _pkg_set(text).contains(v, prereleases=True)


def _ref(tree, v: Version, memo: dict | None = None) -> bool:
    """The Boolean combination of packaging's answers over the leaves (memo: per case, keyed by node identity)."""
    if memo is not None:
        key = (id(tree), str(v))   # the spelling matters for === leaves (1.0 vs 1.0.0)
        if key in memo:
            return memo[key]
    k = tree[0]
    if k in ("leaf", "fss"):
        r = _leaf_ref(tree[1], v)
    elif k in ("any", "rany"):
        r = True
    elif k == "empty":
        r = False
    elif k == "not":
        r = not _ref(tree[1], v, memo)
    elif k == "and":
        r = _ref(tree[1], v, memo) and _ref(tree[2], v, memo)
    else:
        r = _ref(tree[1], v, memo) or _ref(tree[2], v, memo)
    if memo is not None:
        memo[key] = r
    return r


def _exact_bounds(tree) -> list[Version]:
    """The final releases that occur literally as operands of the leaves."""
    out = set()
    for leaf in W.tree_leaves(tree):
        for part in leaf.replace("||", ",").split(","):
            p = part.strip().lstrip("<>=!~ ").rstrip("*").rstrip(".")
            try:
                v = Version(p)
            except InvalidVersion:
                continue
            if not (v.is_prerelease or v.is_postrelease or v.local):
                out.add(v)
    return sorted(out)


def _case(ctx, arbitrary=False):
    import dep_logic.specifiers as S

    def per_case(tree, pool):
        cands = candidates(tree)
        text = W.tree_text(tree)
        size = W.tree_size(tree)
        big = size > 60
        memo: dict = {}
        if big:
            # large trees: every literal bound stays a candidate, the derived neighbours are sampled, and
            # only the upper nodes (unions of many ranges) are probed
            exact = _exact_bounds(tree)
            rest = [c for c in cands if c not in set(exact)]
            cands = sorted(set(exact[:: max(1, len(exact) // 160)] + ctx.rnd.sample(rest, min(len(rest), 80))))
            ctx.shape("workload:large-tree-membership")

        def on_node(t, value, kids):
            if big and t is not tree and W.tree_size(t) < size // 4:
                return
            has_arb = "===" in (text if t is tree else W.tree_text(t))
            if has_arb:
                bump("arbitrary-node")
                ctx.shape("arbitrary:returned")
            trivial = isinstance(value, (S.EmptySpecifier, S.AnySpecifier)) or (
                isinstance(value, S.RangeSpecifier) and value.is_any())
            cs = cands + ([Version("1.0"), Version("1.0.0")] if has_arb else [])
            for v in cs:
                exp = _ref(t, v, memo)
                ctx.evaluations += 1
                bump("node-membership")
                for how in ("in", "contains", "in(Version)"):
                    try:
                        # `in` receives the candidate as text, as the marker layer does - and as a parsed Version,
                        # which its signature documents as well (for === results the candidate's own spelling
                        # decides: 1.0 and 1.0.0 are different candidates)
                        got = (str(v) in value) if how == "in" else ((v in value) if how == "in(Version)" else (
                            value.contains(v) if hasattr(value, "contains") else (str(v) in value)))
                    except Exception as e:  # noqa: BLE001
                        violation(PROP, "node-membership", f"membership test raised {type(e).__name__}",
                                  {"tree": W.tree_text(t)[:400], "version": str(v), "how": how, "error": str(e)[:200]})
                        break
                    if bool(got) != exp:
                        violation(PROP, "node-membership", "membership differs from packaging over the leaves",
                                  {"tree": W.tree_text(t)[:400], "value": iv.describe(value), "version": str(v),
                                   "how": how, "got": bool(got), "expected": exp, "value_type": type(value).__name__},
                                  live={"value": value})
                        break
                if not trivial:
                    ctx.nontrivial(text, str(v))
            if t is tree and len(ctx.samples) < 5 and not trivial:
                ctx.sample({"tree": text[:300], "value": iv.describe(value), "candidates": [str(c) for c in cands[:12]]})

        eval_tree(ctx, tree, on_node, prop=PROP, arbitrary=arbitrary, allow=(ValueError,),
                  exc_is_violation=True, node_calls_monitored=True)
    return per_case


def run(ctx):
    if ctx.shard == 0:  # the repository's own pinned examples as one more workload (outcomes ignored)
        from ..repotests import run_repo_tests

        run_repo_tests(ctx, ("specifier", "marker"))
    run_trees(ctx, _case(ctx), depth=(0, 3), scale=0.25, hostile_p=0.15, large=(2, 24, 50))
    ctx.extra["arbitrary_stratum_from_case"] = ctx.cases
    run_trees(ctx, _case(ctx, arbitrary=True), depth=(1, 3), arbitrary=True, scale=0.1, hostile_p=0.1, large=None)


def replay(ctx, case):
    if isinstance(case, dict) and case.get("kind") == "repo-test":
        from ..repotests import run_repo_tests

        run_repo_tests(ctx, nodeid=case["nodeid"])
        return
    _case(ctx, arbitrary="===" in W.tree_text(case["tree"]))(case["tree"], None)
