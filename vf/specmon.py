"""Monitors for the version-specifier layer (C01, C04, C05, C06, C13, C14)."""
from __future__ import annotations

from packaging.version import Version

from . import monitor
from .models import intervals as iv
from .monitor import install, violation


def spec_classes():
    import dep_logic.specifiers as S

    return S


def _first_diff(pts, got, exp):
    for p, g, e in zip(pts, got, exp):
        if g != e:
            return {"version": str(p), "result_admits": g, "expected": e}
    return None


# ------------------------------------------------------------------------------------------------
# C01: every operator call is an exact set operation (critical-point vectors, exact per call)
# ------------------------------------------------------------------------------------------------

def install_c01(ctx, prop="C01"):
    S = spec_classes()

    def post_bin(opname, comb):
        def post(args, kwargs, r):
            a, b = args[0], args[1]
            if not (iv.readable(a) and iv.readable(b)):
                return
            if not iv.readable(r):
                violation(prop, f"{type(a).__name__}.{opname}", "result is not an interval specifier",
                          {"a": iv.describe(a), "b": iv.describe(b), "result": repr(r)})
                return
            pts = iv.points(a, b, r)
            va, vb, vr = iv.vector(a, pts), iv.vector(b, pts), iv.vector(r, pts)
            exp = tuple(comb(x, y) for x, y in zip(va, vb))
            ctx.evaluations += len(pts)
            ctx.shape(f"{opname}:{iv.relation(a, b)}")
            if vr != exp:
                violation(prop, f"{type(a).__name__}.{opname}", f"{opname} is not the exact set operation",
                          {"a": iv.describe(a), "b": iv.describe(b), "result": iv.describe(r),
                           "a_text": _safe_str(a), "b_text": _safe_str(b), "op": opname,
                           "diff": _first_diff(pts, vr, exp)})
        return post

    def post_inv(args, kwargs, r):
        a = args[0]
        if not iv.readable(a):
            return
        if not iv.readable(r):
            violation(prop, f"{type(a).__name__}.__invert__", "result is not an interval specifier",
                      {"a": iv.describe(a), "result": repr(r)})
            return
        pts = iv.points(a, r)
        va, vr = iv.vector(a, pts), iv.vector(r, pts)
        exp = tuple(not x for x in va)
        ctx.evaluations += len(pts)
        ctx.shape("invert:" + ("union" if isinstance(a, S.UnionSpecifier) else type(a).__name__))
        if vr != exp:
            violation(prop, f"{type(a).__name__}.__invert__", "~ is not the exact complement",
                      {"a": iv.describe(a), "result": iv.describe(r), "a_text": _safe_str(a), "op": "invert",
                       "diff": _first_diff(pts, vr, exp)})

    AND = post_bin("and", lambda x, y: x and y)
    OR = post_bin("or", lambda x, y: x or y)

    # operands must come out of an operator call exactly as they went in (no aliasing / mutation)
    def snap(args, kwargs):
        return tuple((iv.describe(x), _safe_str(x)) if iv.readable(x) else None for x in args[:2])

    def unchanged(name):
        def post(args, kwargs, r, token):
            now = snap(args, kwargs)
            if token is not None and now != token:
                violation(prop, f"{name} (operands)", "an operator call changed one of its operands",
                          {"before": token, "after": now, "group": "mutation"})
        return post

    for cls in (S.RangeSpecifier, S.UnionSpecifier):
        for meth in ("__and__", "__or__", "__invert__"):
            install(cls, meth, unchanged(f"{cls.__name__}.{meth}"), pre=snap, mon=f"immutable.{cls.__name__}.{meth}",
                    aliases=(("__rand__",) if meth == "__and__" else ("__ror__",) if meth == "__or__" else ())
                    if cls is S.UnionSpecifier else ())
    install(S.RangeSpecifier, "__and__", AND)
    install(S.RangeSpecifier, "__or__", OR)
    install(S.RangeSpecifier, "__invert__", post_inv)
    for cls in (S.UnionSpecifier, S.EmptySpecifier, S.AnySpecifier):
        install(cls, "__and__", AND, aliases=("__rand__",))
        install(cls, "__or__", OR, aliases=("__ror__",))
        install(cls, "__invert__", post_inv)


def _safe_str(s) -> str:
    try:
        return str(s)
    except Exception as e:  # noqa: BLE001
        return f"<str() raised {type(e).__name__}>"


def node_check_c01(ctx, t, value, child_values, prop="C01"):
    """End-to-end oracle at one tree node, independent of which dunder dispatched the call."""
    kind = t[0]
    if kind not in ("and", "or", "not"):
        return
    if not all(iv.readable(c) for c in child_values):
        return
    if not iv.readable(value):
        violation(prop, "tree-node", "operator returned a non-interval object",
                  {"node": kind, "result": repr(value)})
        return
    pts = iv.points(value, *child_values)
    vr = iv.vector(value, pts)
    cv = [iv.vector(c, pts) for c in child_values]
    if kind == "and":
        exp = tuple(x and y for x, y in zip(*cv))
    elif kind == "or":
        exp = tuple(x or y for x, y in zip(*cv))
    else:
        exp = tuple(not x for x in cv[0])
    ctx.evaluations += len(pts)
    monitor.bump("tree-node")
    # the same operator call repeated on the same operand objects must give the same result (no hidden state)
    try:
        again = (child_values[0] & child_values[1]) if kind == "and" else (
            (child_values[0] | child_values[1]) if kind == "or" else ~child_values[0])
        if iv.describe(again) != iv.describe(value) or _safe_str(again) != _safe_str(value):
            violation(prop, "tree-node", f"repeating the same {kind} call on the same objects gives a different result",
                      {"op": kind, "operands": [iv.describe(c) for c in child_values], "first": iv.describe(value),
                       "second": iv.describe(again), "first_text": _safe_str(value), "second_text": _safe_str(again),
                       "group": "repeat"})
    except Exception as e:  # noqa: BLE001
        violation(prop, "tree-node", f"repeating the same {kind} call raised {type(e).__name__}",
                  {"op": kind, "operands": [iv.describe(c) for c in child_values], "group": "repeat"})
    if vr != exp:
        violation(prop, "tree-node", f"{kind} node is not the exact set operation",
                  {"op": kind, "operands": [iv.describe(c) for c in child_values],
                   "a_text": _safe_str(child_values[0]),
                   "b_text": _safe_str(child_values[1]) if len(child_values) > 1 else None,
                   "result": iv.describe(value), "diff": _first_diff(pts, vr, exp)})


# ------------------------------------------------------------------------------------------------
# C05: canonical shape at every return of parser / operators; is_empty / is_any exact
# ------------------------------------------------------------------------------------------------

def check_canonical(ctx, where, r, operands, prop="C05"):
    d = iv.canon_defect(r)
    if d is not None:
        violation(prop, where, "result is not canonical: " + d,
                  {"result": iv.describe(r), "operands": [iv.describe(o) if iv.readable(o) else repr(o) for o in operands]})
        return
    if not iv.readable(r):
        return
    pts = iv.points(r)
    vec = iv.vector(r, pts)
    ctx.evaluations += 1
    try:
        e, a = r.is_empty(), r.is_any()
    except Exception as ex:  # noqa: BLE001
        violation(prop, where, f"is_empty/is_any raised {type(ex).__name__}", {"result": iv.describe(r)})
        return
    if e != (not any(vec)):
        violation(prop, where, "is_empty() disagrees with the admitted set",
                  {"result": iv.describe(r), "is_empty": e, "admits_something": any(vec)}, live={"result": r})
    if a != all(vec):
        violation(prop, where, "is_any() disagrees with the admitted set",
                  {"result": iv.describe(r), "is_any": a, "admits_everything": all(vec)}, live={"result": r})


def install_c05(ctx, prop="C05"):
    S = spec_classes()

    def post_op(name):
        def post(args, kwargs, r):
            if iv.readable(r) and all(iv.readable(x) for x in args[:2]):
                check_canonical(ctx, name, r, args[:2], prop)
                # the statement itself: (a & b).is_empty() iff no version satisfies both; (a | b).is_any() iff every
                # version satisfies one of them - decided on the operands' own critical points
                if len(args) >= 2 and name.endswith(("__and__", "__or__")):
                    a, b = args[0], args[1]
                    pts = iv.points(a, b, r)
                    va, vb = iv.vector(a, pts), iv.vector(b, pts)
                    try:
                        if name.endswith("__and__"):
                            exp = not any(x and y for x, y in zip(va, vb))
                            got = bool(r.is_empty())
                            what = "(a & b).is_empty() disagrees with the operands"
                        else:
                            exp = all(x or y for x, y in zip(va, vb))
                            got = bool(r.is_any())
                            what = "(a | b).is_any() disagrees with the operands"
                    except Exception as ex:  # noqa: BLE001
                        violation(prop, name, f"is_empty/is_any raised {type(ex).__name__}", {"result": iv.describe(r)})
                        return
                    ctx.evaluations += 1
                    if got != exp:
                        violation(prop, name, what, {"a": iv.describe(a), "b": iv.describe(b), "result": iv.describe(r),
                                                     "reported": got, "expected": exp, "group": "vs-operands"},
                                  live={"result": r, "x": a, "y": b})
        return post

    def post_parse(args, kwargs, r):
        check_canonical(ctx, "parse_version_specifier", r, [args[0]], prop)

    def post_fss(args, kwargs, r):
        check_canonical(ctx, "from_specifierset", r, [str(args[0])], prop)

    install(S.RangeSpecifier, "__and__", post_op("RangeSpecifier.__and__"))
    install(S.RangeSpecifier, "__or__", post_op("RangeSpecifier.__or__"))
    install(S.RangeSpecifier, "__invert__", post_op("RangeSpecifier.__invert__"))
    for cls in (S.UnionSpecifier, S.EmptySpecifier, S.AnySpecifier):
        n = cls.__name__
        install(cls, "__and__", post_op(n + ".__and__"), aliases=("__rand__",))
        install(cls, "__or__", post_op(n + ".__or__"), aliases=("__ror__",))
        install(cls, "__invert__", post_op(n + ".__invert__"))
    import dep_logic.specifiers as SP
    import dep_logic.tags.tags as TT

    install(SP, "parse_version_specifier", post_parse, mon="parse_version_specifier", also=((TT, "parse_version_specifier"),))
    install(SP, "from_specifierset", post_fss, mon="from_specifierset")


def pairwise_eq_check(ctx, values, prop="C05", where="pairwise-eq"):
    """== must coincide with equality of the admitted sets (exact, shared critical points)."""
    vals = [v for v in values if iv.readable(v)]
    if len(vals) < 2:
        return
    pts = iv.points(*vals)
    vecs = [iv.vector(v, pts) for v in vals]
    for i in range(len(vals)):
        for j in range(i + 1, len(vals)):
            x, y = vals[i], vals[j]
            same = vecs[i] == vecs[j]
            try:
                eq = bool(x == y)
                eq2 = bool(y == x)
            except Exception as ex:  # noqa: BLE001
                violation(prop, where, f"== raised {type(ex).__name__}", {"x": iv.describe(x), "y": iv.describe(y)})
                continue
            ctx.evaluations += 1
            monitor.bump(where)
            if same and x is not y and iv.describe(x) != iv.describe(y):
                ctx.shape("same-set-different-object")
            if eq != same or eq2 != same:
                violation(prop, where, "== does not coincide with equality of the admitted sets",
                          {"x": iv.describe(x), "y": iv.describe(y), "x==y": eq, "y==x": eq2, "same_set": same,
                           "x_type": type(x).__name__, "y_type": type(y).__name__}, live={"x": x, "y": y})


def denotation(tree, leafvals, pts, memo=None):
    """Membership vector of the SET a tree denotes, computed by the model from the values of its leaves
    only (never from intermediate library results).  None if a leaf is missing / not readable."""
    memo = {} if memo is None else memo
    k = id(tree)
    if k in memo:
        return memo[k]
    kind = tree[0]
    if kind in ("leaf", "fss", "any", "rany", "empty"):
        v = leafvals.get(k)
        r = iv.vector(v, pts) if v is not None and iv.readable(v) else None
    elif kind == "not":
        x = denotation(tree[1], leafvals, pts, memo)
        r = None if x is None else tuple(not p for p in x)
    else:
        x = denotation(tree[1], leafvals, pts, memo)
        y = denotation(tree[2], leafvals, pts, memo)
        if x is None or y is None:
            r = None
        elif kind == "and":
            r = tuple(p and q for p, q in zip(x, y))
        else:
            r = tuple(p or q for p, q in zip(x, y))
    memo[k] = r
    return r


def denotation_check(ctx, roots, leafvals, prop="C05"):
    """C05's 'consequently' clause along whole expressions: for results reached through any chain of operators,
    is_empty()/is_any() and == must agree with the sets the expressions denote (leaf sets combined by the model)."""
    from .workloads import specs as W

    usable = [(t, r) for t, r in roots if r is not None and iv.readable(r)]
    if not usable:
        return
    leaves = [v for v in leafvals.values() if iv.readable(v)]
    pts = iv.points(*leaves, *[r for _, r in usable])
    memo = {}
    den = []
    for t, r in usable:
        e = denotation(t, leafvals, pts, memo)
        if e is None:
            continue
        den.append((t, r, e))
        monitor.bump("denotation")
        ctx.evaluations += 1
        live = {"result": r, "tree": t, "leafvals": leafvals}
        if bool(r.is_empty()) != (not any(e)):
            violation(prop, "denotation", "is_empty() disagrees with the set the expression denotes",
                      {"tree": W.tree_text(t)[:400], "result": iv.describe(r)[:300], "is_empty": bool(r.is_empty()),
                       "denoted_empty": not any(e), "group": "den-empty"}, live=live)
        if bool(r.is_any()) != all(e):
            violation(prop, "denotation", "is_any() disagrees with the set the expression denotes",
                      {"tree": W.tree_text(t)[:400], "result": iv.describe(r)[:300], "is_any": bool(r.is_any()),
                       "denoted_any": all(e), "group": "den-any"}, live=live)
    for i in range(len(den)):
        for j in range(i + 1, len(den)):
            (t1, x, e1), (t2, y, e2) = den[i], den[j]
            same = e1 == e2
            eq = bool(x == y)
            monitor.bump("denotation-eq")
            if same and x is not y:
                ctx.shape("same-denotation-different-path")
            if eq != same:
                violation(prop, "denotation", "== between two results does not coincide with equality of the denoted sets",
                          {"x_tree": W.tree_text(t1)[:300], "y_tree": W.tree_text(t2)[:300], "x": iv.describe(x)[:200],
                           "y": iv.describe(y)[:200], "x==y": eq, "same_denotation": same, "group": "den-eq"},
                          live={"x": x, "y": y, "x_tree": t1, "y_tree": t2, "leafvals": leafvals})


# ------------------------------------------------------------------------------------------------
# C06: text round-trip
# ------------------------------------------------------------------------------------------------

def render_path(v, text: str) -> str:
    simp = getattr(v, "simplified", None)
    if simp is not None:
        return "inherited-from-parse"
    if text == "":
        return "universal"
    if text == "<empty>":
        return "empty"
    if "||" in text:
        return "union-join"
    if text.startswith("~="):
        return "compatible-release"
    if text.startswith("!=") and text.endswith(".*"):
        return "not-equal-wildcard"
    if text.startswith("!="):
        return "not-equal"
    if text.startswith("=="):
        return "equal"
    if "," in text:
        return "pair"
    return "single-bound"


def roundtrip_check(ctx, v, prop="C06", where="roundtrip", origin=None):
    from dep_logic.specifiers import parse_version_specifier

    if not iv.readable(v):
        return
    monitor.bump(where)
    try:
        text = str(v)
    except Exception as ex:  # noqa: BLE001
        violation(prop, where, f"str() raised {type(ex).__name__}: {ex}", {"spec": iv.describe(v), "origin": origin})
        return
    try:
        if str(v) != text:
            violation(prop, where, "str() of the same object gives two different texts",
                      {"spec": iv.describe(v), "first": text, "second": str(v), "origin": origin, "group": "repeat"})
    except Exception as ex:  # noqa: BLE001
        violation(prop, where, f"second str() raised {type(ex).__name__}", {"spec": iv.describe(v), "origin": origin})
    path = render_path(v, text)
    ctx.shape("render:" + path)
    try:
        back = parse_version_specifier(text)
    except Exception as ex:  # noqa: BLE001
        violation(prop, where, f"parse_version_specifier(str(s)) raised {type(ex).__name__}",
                  {"spec": iv.describe(v), "text": text, "error": str(ex)[:200], "path": path, "origin": origin})
        return
    ctx.evaluations += 1
    if path != "inherited-from-parse":
        ctx.nontrivial("rt", text)
    pts = iv.points(v, back) if iv.readable(back) else []
    same = iv.readable(back) and iv.vector(v, pts) == iv.vector(back, pts)
    try:
        eq = bool(back == v)
    except Exception as ex:  # noqa: BLE001
        eq = f"raised {type(ex).__name__}"
    if not same or eq is not True:
        d = None
        if iv.readable(back):
            d = _first_diff(pts, iv.vector(back, pts), iv.vector(v, pts))
        violation(prop, where, "text does not parse back to an equal specifier",
                  {"spec": iv.describe(v), "text": text, "reparsed": iv.describe(back) if iv.readable(back) else repr(back),
                   "equal": eq, "same_set": same, "path": path, "diff": d, "origin": origin},
                  live={"spec": v, "back": back})
