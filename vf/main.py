"""./check <Cxx> [--tier quick|thorough] [--seed N] [--replay FILE]"""
from __future__ import annotations

import argparse
import importlib
import json
import os
import sys


def main() -> int:
    ap = argparse.ArgumentParser()
    ap.add_argument("prop")
    ap.add_argument("--tier", default=os.environ.get("VERIF_TIER", "quick"), choices=["quick", "thorough"])
    ap.add_argument("--seed", type=int, default=int(os.environ.get("VERIF_SEED", "0") or 0))
    ap.add_argument("--replay")
    ap.add_argument("--shard", type=int, default=0)
    ap.add_argument("--nshards", type=int, default=1)
    ap.add_argument("--shard-out")
    a = ap.parse_args()
    prop = a.prop.upper()
    from . import boot

    boot.boot()
    mod = importlib.import_module(f"vf.checks.{prop.lower()}")

    if a.replay is None and a.shard_out is None:
        from .runner import run_parent

        return run_parent(prop, a.tier, a.seed, mod)

    # ---- child / replay: this process imports the code under test ---------------------------
    from . import findings, monitor
    from .runner import Ctx

    ctx = Ctx(prop, a.tier, a.seed, a.shard, a.nshards)
    ctx.classifier = findings.make_classifier(prop)
    monitor.STATE.ctx = ctx
    if a.replay:
        with open(a.replay) as f:
            v = json.load(f)
        want = str(v.get("hashseed") or "")
        want_opt = int(v.get("optimize") or 0)
        if ((want and os.environ.get("PYTHONHASHSEED") != want) or want_opt != sys.flags.optimize) \
                and not os.environ.get("VF_REEXEC"):
            # replay under the hash seed and the interpreter optimisation level the violation was observed with
            env = dict(os.environ, PYTHONHASHSEED=want or os.environ.get("PYTHONHASHSEED", "0"), VF_REEXEC="1")
            os.execve(sys.executable, [sys.executable, *(["-O"] if want_opt else []), "-m", "vf.main", *sys.argv[1:]], env)
        ctx.replaying = True
        ctx.classifier = None  # a replay reports whatever it reproduces
        ctx.current_case = v.get("case")
        mod.setup(ctx)
        mod.replay(ctx, v["case"])
        if ctx.viol_count:
            print(f"VIOLATION property={prop} replay={a.replay}")
            for w in ctx.violations[:5]:
                print(f"  monitor={w['monitor']} what={w['what']}")
                print("  detail=" + json.dumps(w["detail"], default=str)[:1500])
            return 1
        print(f"replay of {a.replay}: no violation reproduced")
        return 0

    from . import coverage

    coverage.start(getattr(mod, "ANCHORS", []))
    mod.setup(ctx)
    if a.shard == 0:
        findings.run_witnesses(prop, ctx, mod)
    mod.run(ctx)
    if hasattr(mod, "finish"):
        mod.finish(ctx)
    d = ctx.dump()
    d["anchor_lines"] = coverage.report()
    with open(a.shard_out, "w") as f:
        json.dump(d, f, default=str)
    return 0


if __name__ == "__main__":
    sys.exit(main())
