"""Known findings: mechanism-keyed classifier (DESIGN.md §3.9).

known_findings.json is committed and never written at run time.  A finding is identified by a
*mechanism predicate* (a function below) - never by a case hash or by random values - and carries
one pinned witness per property, re-executed on every run:

* the witness still violates            -> "KNOWN-FINDING: property=<id> <finding> <what>"
* a workload violation matches the
  predicate of an open finding           -> counted under known_finding_hits
* anything else                          -> VIOLATION
* entries with status "fixed" suppress nothing.
"""
from __future__ import annotations

import json
import os
from collections import Counter

from .boot import VERIF

PREDICATES = {}


def predicate(fn):
    PREDICATES[fn.__name__] = fn
    return fn


def load() -> list[dict]:
    path = os.path.join(VERIF, "known_findings.json")
    if not os.path.exists(path):
        return []
    with open(path) as f:
        return json.load(f)["findings"]


def open_findings(prop: str) -> list[dict]:
    return [f for f in load() if f.get("status") == "open" and prop in f["properties"]]


def make_classifier(prop: str):
    from . import finding_predicates  # noqa: F401  (registers predicates)

    fs = open_findings(prop)
    missing = [f["predicate"] for f in load() if f.get("status") == "open" and f["predicate"] not in PREDICATES]
    if missing:
        raise SystemExit(f"INCONCLUSIVE reason=known_findings.json names predicates that do not exist: {missing}")
    if not fs:
        return None

    def classify(v: dict):
        for f in fs:
            pred = PREDICATES[f["predicate"]]
            if pred(v):
                return f["id"]
        return None

    return classify


def run_witnesses(prop: str, ctx, mod) -> None:
    """Re-execute the pinned witness of every open finding of this property (shard 0 only).

    The witness runs under the normal classifier: if it still violates by the listed mechanism the
    finding is reported as reproduced; anything else it violates is an ordinary VIOLATION.
    """
    for f in open_findings(prop):
        wit = f.get("witness", {}).get(prop)
        if wit is None:
            continue
        before = ctx.known_hits[f["id"]]
        saved = ctx.current_case
        ctx.current_case = wit
        try:
            ctx.guarded(60, mod.replay, ctx, wit)
        finally:
            ctx.current_case = saved
        if ctx.known_hits[f["id"]] > before:
            ctx.known_witness[f["id"]] = f["what"]
