"""Monitor installation: post-conditions on the *real* functions of dep_logic.

Every monitor is a hand-written wrapper rebound on the imported class / module (no edit of the
repository).  Conditions *record and return*: a failed monitor appends a violation to the run
context and never raises, so it cannot change the execution it observes.  While an oracle runs
(`STATE.depth > 0`) nested wrappers pass straight through, so the oracle's own use of the library
(`evaluate`, `==`, `str`) is neither checked recursively nor counted as an observed event.
"""
from __future__ import annotations

import functools
import sys
import traceback
from collections import Counter
from typing import Any, Callable


class CaseTimeout(BaseException):
    """Raised by the per-case SIGALRM watchdog; never a violation (inconclusive)."""


class _State:
    depth = 0  # >0 while an oracle is running
    nest = 0  # number of monitored library calls currently on the stack (0 inside a post-condition = outermost call)
    ctx = None  # current run context (vf.runner.Ctx)
    installed: list[tuple[Any, str, Any]] = []  # for uninstall
    counts: Counter = Counter()  # monitor name -> events observed
    errors: Counter = Counter()


STATE = _State()


def bump(name: str, n: int = 1) -> None:
    STATE.counts[name] += n


class oracle:
    """Context manager: run harness code that may call into the library without being monitored."""

    def __enter__(self):
        STATE.depth += 1

    def __exit__(self, *exc):
        STATE.depth -= 1
        return False


def _make_wrapper(orig: Callable, mon_name: str, post: Callable | None, on_exc: Callable | None,
                  pre: Callable | None = None):
    def wrapper(*args, **kwargs):
        if STATE.depth:
            return orig(*args, **kwargs)
        token = None
        if pre is not None:
            # snapshot taken before the call (e.g. to detect mutation of the operands)
            STATE.depth += 1
            try:
                token = pre(args, kwargs)
            except CaseTimeout:
                raise
            except Exception:  # noqa: BLE001
                STATE.errors[mon_name] += 1
                _note_error(mon_name)
            finally:
                STATE.depth -= 1
        STATE.nest += 1
        try:
            result = orig(*args, **kwargs)
        except CaseTimeout:
            STATE.nest = 0
            raise
        except BaseException as exc:  # noqa: BLE001 - observed, re-raised unchanged
            STATE.nest -= 1
            if on_exc is not None and isinstance(exc, Exception):
                STATE.depth += 1
                try:
                    STATE.counts[mon_name + "!exc"] += 1
                    on_exc(args, kwargs, exc)
                except CaseTimeout:
                    raise
                except Exception:  # harness bug: keep going, count it
                    STATE.errors[mon_name] += 1
                    _note_error(mon_name)
                finally:
                    STATE.depth -= 1
            raise
        STATE.nest -= 1
        if post is not None and result is not NotImplemented:
            STATE.depth += 1
            try:
                STATE.counts[mon_name] += 1
                if pre is not None:
                    post(args, kwargs, result, token)
                else:
                    post(args, kwargs, result)
            except CaseTimeout:
                raise
            except Exception:
                STATE.errors[mon_name] += 1
                _note_error(mon_name)
            finally:
                STATE.depth -= 1
        return result

    functools.update_wrapper(wrapper, orig, updated=())
    wrapper.__vf_orig__ = orig
    return wrapper


_first_errors: dict[str, str] = {}


def _note_error(mon_name: str) -> None:
    if mon_name not in _first_errors:
        _first_errors[mon_name] = traceback.format_exc(limit=6)


def first_errors() -> dict[str, str]:
    return dict(_first_errors)


def install(owner: Any, name: str, post: Callable | None = None, *, mon: str | None = None,
            aliases: tuple[str, ...] = (), also: tuple[tuple[Any, str], ...] = (),
            on_exc: Callable | None = None, pre: Callable | None = None) -> None:
    """Wrap `owner.name` (class attribute or module attribute).

    aliases: other attribute names on the same owner that were bound to the same function at class
    creation (`__rand__ = __and__`); also: (module, attr) pairs holding `from x import f` copies.
    classmethod / staticmethod descriptors are re-wrapped as such.
    """
    raw = owner.__dict__[name] if isinstance(owner, type) else getattr(owner, name)
    import types

    if isinstance(owner, types.ModuleType):
        mon_name = mon or name
    else:
        mon_name = mon or f"{getattr(owner, '__name__', owner)}.{name}"
    if isinstance(raw, classmethod):
        wrapped: Any = classmethod(_make_wrapper(raw.__func__, mon_name, post, on_exc, pre))
    elif isinstance(raw, staticmethod):
        wrapped = staticmethod(_make_wrapper(raw.__func__, mon_name, post, on_exc, pre))
    elif hasattr(raw, "cache_info"):
        # functools.lru_cache object: keep cache_info/cache_clear/__wrapped__
        w = _make_wrapper(raw, mon_name, post, on_exc, pre)
        w.cache_info = raw.cache_info
        w.cache_clear = raw.cache_clear
        w.__wrapped__ = raw.__wrapped__
        w.__vf_cached__ = raw
        wrapped = w
    else:
        wrapped = _make_wrapper(raw, mon_name, post, on_exc, pre)
    targets = [(owner, name)] + [(owner, a) for a in aliases] + list(also)
    for tgt, attr in targets:
        old = tgt.__dict__[attr] if isinstance(tgt, type) else getattr(tgt, attr)
        STATE.installed.append((tgt, attr, old))
        setattr(tgt, attr, wrapped)
    STATE.counts.setdefault(mon_name, 0)


def uninstall_all() -> None:
    while STATE.installed:
        tgt, attr, old = STATE.installed.pop()
        setattr(tgt, attr, old)


def violation(prop: str, monitor: str, what: str, detail: dict, case: Any = None, live: dict | None = None) -> None:
    """Record a violation observed by `monitor` (forwarded to the run context)."""
    ctx = STATE.ctx
    if ctx is None:
        print("VIOLATION(no ctx)", prop, monitor, what, detail, file=sys.stderr)
        return
    ctx.violation(prop, monitor, what, detail, case, live)
