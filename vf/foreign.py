"""Objects built in ANOTHER interpreter (own PYTHONHASHSEED, own caches) and shipped here by pickle.

Workers of a multiprocessing pool and on-disk caches hand such objects to a resolver all the time; for
the library they must be indistinguishable from objects built locally: anything that was derived from
`hash()` of a string in the other process, or from that process' caches, must not travel with them.

parent:  objs = foreign_objects(['GenericSpecifier("==", "a")', 'parse_marker(...)'])   (None where it failed)
child :  python -m vf.foreign   (expressions as JSON on stdin, base64 pickle on stdout)
"""
from __future__ import annotations

import base64
import json
import os
import pickle
import subprocess
import sys

NAMESPACE_IMPORTS = (
    "from dep_logic.specifiers import *\n"
    "from dep_logic.specifiers import GenericSpecifier, ArbitrarySpecifier, parse_version_specifier, from_specifierset\n"
    "from dep_logic.markers import *\n"
    "from dep_logic.markers import parse_marker\n"
    "from dep_logic.tags import EnvSpec, Platform, Implementation\n"
)


def foreign_objects(exprs: list[str], *, timeout: float = 120.0) -> list:
    """Evaluate the expressions in a fresh interpreter whose hash seed differs from ours; return the unpickled
    values (None for an expression that failed there or could not be pickled)."""
    from .boot import VERIF

    env = dict(os.environ)
    here = env.get("PYTHONHASHSEED", "0")
    try:
        env["PYTHONHASHSEED"] = str((int(here) + 7) % 4294967295 or 11)
    except ValueError:
        env["PYTHONHASHSEED"] = "11"
    env.pop("VF_REEXEC", None)
    try:
        p = subprocess.run([sys.executable, "-m", "vf.foreign"], input=json.dumps(exprs), cwd=VERIF, env=env,
                           capture_output=True, text=True, timeout=timeout)
        blob = json.loads(p.stdout)
    except Exception:  # noqa: BLE001
        return [None] * len(exprs)
    out = []
    for b in blob:
        try:
            out.append(None if b is None else pickle.loads(base64.b64decode(b)))
        except Exception:  # noqa: BLE001
            out.append(None)
    return out


def _child() -> None:
    from . import boot

    boot.boot()
    ns: dict = {}
    exec(NAMESPACE_IMPORTS, ns)  # noqa: S102 - harness-owned expressions only
    exprs = json.loads(sys.stdin.read())
    out = []
    for e in exprs:
        try:
            v = eval(e, ns)  # noqa: S307
            # use the object a little before shipping it: lazily computed state, hashes, caches
            try:
                hash(v)
                str(v)
                v == v  # noqa: B015
            except Exception:  # noqa: BLE001
                pass
            out.append(base64.b64encode(pickle.dumps(v)).decode())
        except Exception:  # noqa: BLE001
            out.append(None)
    sys.stdout.write(json.dumps(out))


if __name__ == "__main__":
    _child()
