"""What the monitors saw: line coverage of the anchor functions only (DESIGN §3.7).

sys.monitoring local LINE events are enabled on the code objects of the functions a property is
anchored in; the callback returns DISABLE after the first hit of a line, so the steady-state cost
is ~0.  The evidence lists, per anchor, lines hit / lines present.
"""
from __future__ import annotations

import dis
import importlib
import inspect
import sys

TOOL = 3
_codes: dict = {}
_hits: dict = {}


def _resolve(spec: str):
    modname, qual = spec.split(":")
    obj = importlib.import_module(modname)
    for part in qual.split("."):
        if inspect.isclass(obj):
            obj = obj.__dict__[part]
        else:
            obj = getattr(obj, part)
    for attr in ("__func__", "func", "__wrapped__"):
        while hasattr(obj, attr) and not inspect.iscode(getattr(obj, "__code__", None)):
            obj = getattr(obj, attr)
    if isinstance(obj, (classmethod, staticmethod)):
        obj = obj.__func__
    if hasattr(obj, "__wrapped__") and not hasattr(obj, "__code__"):
        obj = obj.__wrapped__
    return obj.__code__


def start(anchors: list[str]) -> None:
    mon = getattr(sys, "monitoring", None)
    if mon is None or not anchors:
        return
    try:
        mon.use_tool_id(TOOL, "vf-anchors")
    except ValueError:
        return

    def on_line(code, lineno):
        _hits.setdefault(code, set()).add(lineno)
        return mon.DISABLE

    mon.register_callback(TOOL, mon.events.LINE, on_line)
    for spec in anchors:
        try:
            code = _resolve(spec)
        except Exception:  # noqa: BLE001
            _codes[spec] = None
            continue
        _codes[spec] = code
        mon.set_local_events(TOOL, code, mon.events.LINE)


def report() -> dict:
    out = {}
    for spec, code in _codes.items():
        if code is None:
            out[spec] = "unresolved"
            continue
        lines = {ln for _, ln in dis.findlinestarts(code) if ln is not None and ln != code.co_firstlineno}
        hit = _hits.get(code, set()) & lines
        out[spec] = {"hit": sorted(hit), "missed": sorted(lines - hit)}
    return out
