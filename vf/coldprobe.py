"""Cold oracle for C10: evaluate ONE marker operation in a fresh interpreter (empty caches).

usage: python -m vf.coldprobe '<json {"op": [...], "envs": [...]}>'   -> json {"text":..., "vec":[...], "type":...}
"""
from __future__ import annotations

import json
import sys


def run_op(op):
    from dep_logic.markers import parse_marker

    if op[0] == "parse":
        return parse_marker(op[1])
    a, b = parse_marker(op[1]), parse_marker(op[2])
    return (a & b) if op[0] == "and" else (a | b)


def describe(m, envs):
    vec = []
    for e in envs:
        e = {k: (set(v) if isinstance(v, list) else v) for k, v in e.items()}
        try:
            vec.append(bool(m.evaluate(e)))
        except Exception:  # noqa: BLE001
            vec.append(None)
    return {"text": str(m), "type": type(m).__name__, "vec": vec}


def main():
    from . import boot

    boot.boot()
    req = json.loads(sys.argv[1])
    out = []
    for op in req["ops"][:1]:
        try:
            m = run_op(op)
            d = describe(m, req["envs"])
            if req.get("given_text") is not None:
                from dep_logic.markers import parse_marker

                try:
                    g = parse_marker(req["given_text"])
                    d["equal_to_given"] = bool(g == m) and bool(m == g)
                except Exception:  # noqa: BLE001
                    d["equal_to_given"] = False
            out.append(d)
        except Exception as e:  # noqa: BLE001
            out.append({"error": f"{type(e).__name__}: {e}"})
    print(json.dumps(out))


if __name__ == "__main__":
    main()
